// Euclid's function is the greatest common divisor: it divides both, and every common divisor divides it
pub open spec fn mulof(d: nat, k: nat) -> nat { d * k }
pub open spec fn divides(d: nat, x: nat) -> bool { exists|k: nat| x == #[trigger] mulof(d, k) }
pub proof fn lemma_sgcd_divides(a: nat, b: nat)
    ensures divides(sgcd(a, b), a), divides(sgcd(a, b), b)
    decreases b
{
    let g = sgcd(a, b);
    if b == 0 {
        assert(a == g * 1) by(nonlinear_arith) requires a == g;
        assert(b == g * 0) by(nonlinear_arith) requires b == 0;
        assert(a == mulof(g, 1)); assert(b == mulof(g, 0));
    } else {
        lemma_sgcd_divides(b, a % b);
        let kb = choose|k: nat| b == mulof(g, k);
        let kr = choose|k: nat| a % b == mulof(g, k);
        lemma_fundamental_div_mod(a as int, b as int);
        let q = (a / b) as nat;
        assert(a == g * (kb * q + kr)) by(nonlinear_arith) requires a == b * q + a % b, b == g * kb, a % b == g * kr;
        assert(a == mulof(g, kb * q + kr));
    }
}
pub proof fn lemma_sgcd_greatest(a: nat, b: nat, d: nat)
    requires divides(d, a), divides(d, b), d > 0
    ensures divides(d, sgcd(a, b))
    decreases b
{
    if b != 0 {
        let ka = choose|k: nat| a == mulof(d, k);
        let kb = choose|k: nat| b == mulof(d, k);
        lemma_fundamental_div_mod(a as int, b as int);
        let q = (a / b) as nat;
        let r = a % b;
        // r == d * (ka - kb*q)
        assert(kb * q <= ka) by(nonlinear_arith) requires a == d * ka, b == d * kb, a == b * q + r, r >= 0, d > 0;
        let kr = (ka - kb * q) as nat;
        assert(r == d * kr) by(nonlinear_arith) requires a == d * ka, b == d * kb, a == b * q + r, kr == ka - kb * q;
        assert(r == mulof(d, kr));
        lemma_sgcd_greatest(b, r, d);
    }
}

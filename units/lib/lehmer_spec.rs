// Euclid's function as the specification of gcd
pub open spec fn sgcd(a: nat, b: nat) -> nat decreases b { if b == 0 { a } else { sgcd(b, a % b) } }

// the Lehmer update matrix as a map on pairs (signs are implicit, src/algorithms/gcd/matrix.rs):
// .4 == true means [ .0 -.1; -.2 .3 ], false means [ -.0 .1; .2 -.3 ]
pub open spec fn maps(m: LehmerMatrix, a: int, b: int) -> (int, int) {
    if m.4 { (m.0 as int * a - m.1 as int * b, m.3 as int * b - m.2 as int * a) }
    else { (m.1 as int * b - m.0 as int * a, m.2 as int * a - m.3 as int * b) }
}
pub open spec fn is_identity(m: LehmerMatrix) -> bool { m.0 == 1 && m.1 == 0 && m.2 == 0 && m.3 == 1 && m.4 }
pub open spec fn lehmer_ok(m: LehmerMatrix, a: int, b: int) -> bool {
    let (c, d) = maps(m, a, b);
    &&& 0 <= d <= c <= a
    &&& d < b
    &&& sgcd(c as nat, d as nat) == sgcd(a as nat, b as nat)
    &&& m.0 as int * m.3 as int - m.1 as int * m.2 as int == (if m.4 { 1int } else { -1int })
    &&& m.0 <= m.2
    &&& m.1 <= m.3
    &&& m.0 as int <= a && m.1 as int <= a && m.2 as int <= a && m.3 as int <= a
}

// (a0, a1) are the prefixes of (aa, bb): aa = a0*2^k + ta, bb = a1*2^k + tb with tails below 2^k
pub open spec fn is_prefix(a0: int, a1: int, aa: int, bb: int, k: nat) -> bool {
    aa >= bb && bb >= 0 && a0 == aa / (pow2(k) as int) && a1 == bb / (pow2(k) as int)
}

// the real struct derives Clone and Copy (attributes are dropped by N1, so the two impls are restated here)
impl<const BITS: usize, const LIMBS: usize> Clone for Uint<BITS, LIMBS> { fn clone(&self) -> (r: Self) ensures r == *self { Uint { limbs: self.limbs } } }
impl<const BITS: usize, const LIMBS: usize> Copy for Uint<BITS, LIMBS> {}

// ===== abstract view of Uint (spec/proof only) =====
impl<const BITS: usize, const LIMBS: usize> Uint<BITS, LIMBS> {
    // the type is correctly sized: LIMBS = ceil(BITS/64)  (enforced at compile time by Self::LIMBS)
    pub open spec fn sized() -> bool { LIMBS == (BITS + 63) / 64 }
    // representation invariant: sized and all bits >= BITS are zero
    pub open spec fn wf(self) -> bool {
        &&& Self::sized()
        &&& BITS > 0 ==> self.limbs[LIMBS - 1] <= spec_mask(BITS)
    }
    // the number denoted
    pub open spec fn val(self) -> nat { lv(self.limbs@, LIMBS as nat) }

    // top limb <= mask  <==>  value < 2^BITS   (for correctly sized types)
    pub proof fn lemma_wf_iff_lt(self)
        requires Self::sized(), BITS > 0
        ensures (self.limbs[LIMBS - 1] <= spec_mask(BITS)) <==> self.val() < pow2(BITS as nat)
    {
        let n = (LIMBS - 1) as nat;
        let k = (BITS % 64) as nat;
        let w = pow2(64 * n);
        let top = self.limbs[LIMBS - 1] as nat;
        let low = lv(self.limbs@, n);
        lemma_lv_bound(self.limbs@, n);
        lemma_lv_bound(self.limbs@, LIMBS as nat);
        assert(self.val() == low + top * w);
        if k == 0 {
            assert(BITS == 64 * (n + 1));
        } else {
            assert(BITS == 64 * n + k);
            lemma_pow2_adds(64 * n, k);
            assert(pow2(BITS as nat) == w * pow2(k)) ;
            lemma_pow2_pos(k);
            lemma_pow2_pos(64 * n);
            assert(low_bits_mask(k) == pow2(k) - 1);
            lemma_u64_pow2_no_overflow(k);
            if top <= pow2(k) - 1 {
                lemma_mul_inequality(top as int, (pow2(k) - 1) as int, w as int);
                lemma_mul_is_distributive_sub_other_way(w as int, pow2(k) as int, 1);
                lemma_mul_is_commutative(pow2(k) as int, w as int);
            } else {
                lemma_mul_inequality(pow2(k) as int, top as int, w as int);
                lemma_mul_is_commutative(pow2(k) as int, w as int);
            }
        }
    }

    // wf values are < 2^BITS
    pub proof fn lemma_wf_lt(self)
        requires self.wf()
        ensures self.val() < pow2(BITS as nat)
    {
        if BITS > 0 { self.lemma_wf_iff_lt(); } else { lemma2_to64(); assert(self.val() == 0); }
    }

    // for wf values, equal limbs <==> equal value (== and Hash are derived over the limb array)
    pub proof fn lemma_eq_iff_val(self, other: Self)
        ensures (self.limbs@ == other.limbs@) <==> self.val() == other.val()
    {
        if self.val() == other.val() {
            lemma_lv_inj(self.limbs@, other.limbs@, LIMBS as nat);
            assert(self.limbs@ =~= other.limbs@);
        }
    }
}

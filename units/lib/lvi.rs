// value of the first n limbs
pub open spec fn lvi(s: Seq<u64>, n: int) -> int decreases n {
    if n <= 0 { 0 } else { lvi(s, n - 1) + s[n - 1] as int * bp(n - 1) }
}
pub proof fn lemma_lvi_ext(s: Seq<u64>, t: Seq<u64>, n: int)
    requires n <= s.len(), n <= t.len(), forall|j: int| 0 <= j < n ==> s[j] == t[j]
    ensures lvi(s, n) == lvi(t, n)
    decreases n
{ if n > 0 { lemma_lvi_ext(s, t, n - 1); } }
pub proof fn lemma_lvi_bound(s: Seq<u64>, n: int)
    requires 0 <= n <= s.len()
    ensures 0 <= lvi(s, n) < bp(n)
    decreases n
{
    if n > 0 {
        lemma_lvi_bound(s, n - 1);
        lemma_bp_pos(n - 1);
        assert(s[n - 1] as int * bp(n - 1) <= (B - 1) * bp(n - 1)) by(nonlinear_arith) requires s[n - 1] as int <= B - 1, bp(n - 1) >= 1;
        assert(s[n - 1] as int * bp(n - 1) >= 0) by(nonlinear_arith) requires s[n - 1] as int >= 0, bp(n - 1) >= 1;
        assert((B - 1) * bp(n - 1) + bp(n - 1) == B * bp(n - 1)) by(nonlinear_arith);
    }
}
pub proof fn lemma_lvi_zero(s: Seq<u64>, n: int)
    requires n <= s.len(), forall|j: int| 0 <= j < n ==> s[j] == 0
    ensures lvi(s, n) == 0
    decreases n
{ if n > 0 { lemma_lvi_zero(s, n - 1); } }

// lvi (top-down) and lvr (bottom-up) denote the same number
pub proof fn lemma_lvi_is_lvr(s: Seq<u64>, n: int)
    requires 0 <= n <= s.len()
    ensures lvi(s, n) == lvr(s, 0, n)
    decreases n
{
    if n > 0 {
        lemma_lvi_is_lvr(s, n - 1);
        lemma_lvr_push(s, 0, n - 1);
        assert(s[n - 1] as int * bp(n - 1) == bp(n - 1) * s[n - 1] as int) by(nonlinear_arith);
    }
}

// Montgomery reduction vocabulary
pub open spec fn redc_rel(lhs: int, ab: int, mv: int, mu: int) -> bool { lhs == ab + mv * mu }
pub open spec fn reduce_post(r: Seq<u64>, value: Seq<u64>, modulus: Seq<u64>, carry: bool, n: int) -> bool {
    &&& lvi(r, n) < lvi(modulus, n)
    &&& (lvi(r, n) == lvi(value, n) + (if carry { bp(n) } else { 0 })
            || lvi(r, n) == lvi(value, n) + (if carry { bp(n) } else { 0 }) - lvi(modulus, n))
}
pub open spec fn redc_post(r: Seq<u64>, ab: int, mv: int, n: int) -> bool {
    &&& lvi(r, n) < mv
    &&& exists|mu: int| #[trigger] redc_rel(bp(n) * lvi(r, n), ab, mv, mu)
}

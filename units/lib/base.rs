// ===== shared specification vocabulary and lemma base (spec/proof only) =====
pub open spec const B: int = 0x1_0000_0000_0000_0000;

// value of the first n limbs, little endian, base 2^64
pub open spec fn lv(s: Seq<u64>, n: nat) -> nat
    decreases n
{
    if n == 0 { 0 } else { lv(s, (n - 1) as nat) + (s[n - 1] as nat) * pow2(64 * (n - 1) as nat) }
}

pub open spec fn b2n(b: bool) -> nat { if b { 1 } else { 0 } }

pub proof fn lemma_pow2_64()
    ensures pow2(64) == B
{
    lemma2_to64();
}

pub proof fn lemma_lv_bound(s: Seq<u64>, n: nat)
    requires n <= s.len()
    ensures lv(s, n) < pow2(64 * n)
    decreases n
{
    if n == 0 {
        lemma2_to64();
    } else {
        lemma_lv_bound(s, (n - 1) as nat);
        let w = pow2(64 * (n - 1) as nat);
        lemma_pow2_adds(64 * (n - 1) as nat, 64);
        lemma_pow2_64();
        assert(pow2(64 * n) == w * B);
        assert((s[n - 1] as nat) <= B - 1);
        assert((s[n - 1] as nat) * w <= (B - 1) * w) by {
            lemma_mul_inequality(s[n - 1] as int, (B - 1) as int, w as int);
        }
        assert((B - 1) * w + w == B * w) by { lemma_mul_is_distributive_add_other_way(w as int, (B - 1) as int, 1); }
        assert(B * w == w * B) by { lemma_mul_is_commutative(B as int, w as int); }
    }
}

// lv only depends on the first n entries
pub proof fn lemma_lv_ext(s: Seq<u64>, t: Seq<u64>, n: nat)
    requires n <= s.len(), n <= t.len(), forall|j: int| 0 <= j < n ==> s[j] == t[j]
    ensures lv(s, n) == lv(t, n)
    decreases n
{
    if n > 0 { lemma_lv_ext(s, t, (n - 1) as nat); }
}

// lv is injective on equal-length prefixes
pub proof fn lemma_lv_inj(s: Seq<u64>, t: Seq<u64>, n: nat)
    requires n <= s.len(), n <= t.len(), lv(s, n) == lv(t, n)
    ensures forall|j: int| 0 <= j < n ==> s[j] == t[j]
    decreases n
{
    if n > 0 {
        let m = (n - 1) as nat;
        let w = pow2(64 * m);
        lemma_lv_bound(s, m);
        lemma_lv_bound(t, m);
        lemma_pow2_pos(64 * m);
        let a = s[n - 1] as int;
        let b = t[n - 1] as int;
        // lv(s,m) + a*w == lv(t,m) + b*w with both low parts < w  ==>  a == b
        lemma_fundamental_div_mod_converse((lv(s, m) + a * w) as int, w as int, a, lv(s, m) as int);
        lemma_fundamental_div_mod_converse((lv(t, m) + b * w) as int, w as int, b, lv(t, m) as int);
        assert(a == b);
        assert(lv(s, m) == lv(t, m));
        lemma_lv_inj(s, t, m);
    }
}

// bit length as a spec: 0 for 0, else the k with 2^(k-1) <= x < 2^k
pub open spec fn is_bit_len(x: nat, k: nat) -> bool {
    if x == 0 { k == 0 } else { k >= 1 && pow2((k - 1) as nat) <= x && x < pow2(k) }
}

pub open spec fn spec_nlimbs(bits: usize) -> int { (bits + 63) / 64 }

pub open spec fn spec_mask(bits: usize) -> u64 {
    if bits == 0 { 0 } else if bits % 64 == 0 { u64::MAX } else { (low_bits_mask((bits % 64) as nat)) as u64 }
}

// ===== panics become obligations (normalisation N7) =====
#[verifier::external_body]
pub fn vpanic() -> !
    requires false
{ unimplemented!() }

pub fn vassert(b: bool)
    requires b
{}

// ===== core integer operations without a vstd specification (assumed; each is
// cross-checked full-domain by a loop-free Kani harness, see kani/src/core_specs.rs)
pub assume_specification [u64::overflowing_add] (a: u64, b: u64) -> (r: (u64, bool))
    ensures r.0 as int == (a as int + b as int) % 0x1_0000_0000_0000_0000, r.1 == (a as int + b as int >= 0x1_0000_0000_0000_0000);

pub assume_specification [u64::overflowing_sub] (a: u64, b: u64) -> (r: (u64, bool))
    ensures r.0 as int == (a as int - b as int) % 0x1_0000_0000_0000_0000, r.1 == ((a as int - b as int) < 0int);

pub assume_specification [u64::wrapping_neg] (a: u64) -> (r: u64)
    ensures r as int == (if a == 0 { 0int } else { 0x1_0000_0000_0000_0000 - a as int });

// a limb array that is zero except for limb 0
pub proof fn lemma_lv_single(s: Seq<u64>, n: nat)
    requires 1 <= n <= s.len(), forall|j: int| 1 <= j < n ==> s[j] == 0
    ensures lv(s, n) == s[0] as nat
    decreases n
{
    if n == 1 {
        lemma2_to64();
        assert(lv(s, 1) == lv(s, 0) + (s[0] as nat) * pow2(0));
        assert(lv(s, 0) == 0);
        assert((s[0] as nat) * 1 == s[0] as nat) by(nonlinear_arith);
    } else {
        lemma_lv_single(s, (n - 1) as nat);
        assert((s[n - 1] as nat) * pow2(64 * (n - 1) as nat) == 0) by(nonlinear_arith) requires s[n - 1] == 0;
    }
}

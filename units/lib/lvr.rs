pub open spec fn bp(n: int) -> int decreases n { if n <= 0 { 1 } else { B * bp(n - 1) } }
pub proof fn lemma_bp_pos(n: int) ensures bp(n) >= 1 decreases n {
    if n > 0 { lemma_bp_pos(n - 1); assert(B * bp(n - 1) >= 1) by(nonlinear_arith) requires bp(n - 1) >= 1; }
}
pub proof fn lemma_bp_add(a: int, b: int)
    requires a >= 0, b >= 0
    ensures bp(a + b) == bp(a) * bp(b)
    decreases a
{
    if a == 0 { assert(bp(0) * bp(b) == bp(b)) by(nonlinear_arith) requires bp(0) == 1; }
    else {
        lemma_bp_add(a - 1, b);
        assert(bp(a + b) == B * bp(a - 1 + b));
        assert(B * (bp(a - 1) * bp(b)) == (B * bp(a - 1)) * bp(b)) by(nonlinear_arith);
    }
}

// value of s[lo..hi], little endian, relative to position lo
pub open spec fn lvr(s: Seq<u64>, lo: int, hi: int) -> int
    decreases hi - lo
{
    if lo >= hi { 0 } else { s[lo] as int + B * lvr(s, lo + 1, hi) }
}
pub proof fn lemma_lvr_ext(s: Seq<u64>, t: Seq<u64>, lo: int, hi: int)
    requires 0 <= lo, hi <= s.len(), hi <= t.len(), forall|j: int| lo <= j < hi ==> s[j] == t[j]
    ensures lvr(s, lo, hi) == lvr(t, lo, hi)
    decreases hi - lo
{ if lo < hi { lemma_lvr_ext(s, t, lo + 1, hi); } }
pub proof fn lemma_lvr_shift(s: Seq<u64>, t: Seq<u64>, lo: int, hi: int)
    requires 0 <= lo <= hi <= s.len(), hi - lo <= t.len(), forall|i: int| 0 <= i < hi - lo ==> t[i] == s[lo + i]
    ensures lvr(s, lo, hi) == lvr(t, 0, hi - lo)
    decreases hi - lo
{
    if lo < hi {
        let s1 = s; let t1 = t.subrange(1, t.len() as int);
        assert forall|i: int| 0 <= i < hi - (lo + 1) implies t1[i] == s[lo + 1 + i] by { assert(t1[i] == t[i + 1]); }
        lemma_lvr_shift(s, t1, lo + 1, hi);
        lemma_lvr_shift(t, t1, 1, hi - lo);
    }
}
pub proof fn lemma_lvr_zero(s: Seq<u64>, lo: int, hi: int)
    requires 0 <= lo, hi <= s.len(), forall|i: int| lo <= i < hi ==> s[i] == 0
    ensures lvr(s, lo, hi) == 0
    decreases hi - lo
{ if lo < hi { lemma_lvr_zero(s, lo + 1, hi); assert(B * 0 == 0); } }
pub proof fn lemma_lvr_bound(s: Seq<u64>, lo: int, hi: int)
    requires 0 <= lo <= hi <= s.len()
    ensures 0 <= lvr(s, lo, hi) < bp(hi - lo)
    decreases hi - lo
{
    if lo < hi {
        lemma_lvr_bound(s, lo + 1, hi);
        let r = lvr(s, lo + 1, hi); let w = bp(hi - lo - 1);
        assert(bp(hi - lo) == B * w);
        assert(s[lo] as int + B * r < B * w) by(nonlinear_arith) requires 0 <= s[lo] as int <= B - 1, 0 <= r <= w - 1;
        assert(s[lo] as int + B * r >= 0) by(nonlinear_arith) requires 0 <= s[lo] as int, 0 <= r;
    }
}
// lvr(s,lo,hi) == lvr(s,lo,mid) + bp(mid-lo)*lvr(s,mid,hi)
pub proof fn lemma_lvr_split(s: Seq<u64>, lo: int, mid: int, hi: int)
    requires 0 <= lo <= mid <= hi <= s.len()
    ensures lvr(s, lo, hi) == lvr(s, lo, mid) + bp(mid - lo) * lvr(s, mid, hi)
    decreases mid - lo
{
    if lo == mid {
        assert(bp(0) * lvr(s, mid, hi) == lvr(s, mid, hi)) by(nonlinear_arith) requires bp(0) == 1;
    } else {
        lemma_lvr_split(s, lo + 1, mid, hi);
        assert(bp(mid - lo) == B * bp(mid - lo - 1));
        assert(B * (lvr(s, lo + 1, mid) + bp(mid - lo - 1) * lvr(s, mid, hi)) == B * lvr(s, lo + 1, mid) + (B * bp(mid - lo - 1)) * lvr(s, mid, hi)) by(nonlinear_arith);
    }
}


// lvr(s,lo,hi+1) == lvr(s,lo,hi) + bp(hi-lo)*s[hi]
pub proof fn lemma_lvr_push(s: Seq<u64>, lo: int, hi: int)
    requires 0 <= lo <= hi < s.len()
    ensures lvr(s, lo, hi + 1) == lvr(s, lo, hi) + bp(hi - lo) * s[hi] as int
{
    lemma_lvr_split(s, lo, hi, hi + 1);
    assert(lvr(s, hi, hi + 1) == s[hi] as int) by { assert(lvr(s, hi + 1, hi + 1) == 0); assert(B * 0 == 0); }
}
// leading zero limbs
pub proof fn lemma_lvr_leading_zeros(s: Seq<u64>, lo: int, z: int, hi: int)
    requires 0 <= lo <= z <= hi <= s.len(), forall|i: int| lo <= i < z ==> s[i] == 0
    ensures lvr(s, lo, hi) == bp(z - lo) * lvr(s, z, hi)
{
    lemma_lvr_split(s, lo, z, hi);
    lemma_lvr_zero(s, lo, z);
}
pub proof fn lemma_lvr_trailing_zeros(s: Seq<u64>, lo: int, t: int, hi: int)
    requires 0 <= lo <= t <= hi <= s.len(), forall|i: int| t <= i < hi ==> s[i] == 0
    ensures lvr(s, lo, hi) == lvr(s, lo, t)
{
    lemma_lvr_split(s, lo, t, hi);
    lemma_lvr_zero(s, t, hi);
    assert(bp(t - lo) * 0 == 0) by(nonlinear_arith);
}

// bridge between the two vocabularies: bp(n) = 2^(64 n), lvr(s,0,n) = lv(s,n)
pub proof fn lemma_bp_is_pow2(n: nat)
    ensures bp(n as int) == pow2(64 * n)
    decreases n
{
    if n == 0 { lemma2_to64(); } else {
        lemma_bp_is_pow2((n - 1) as nat);
        lemma_pow2_adds(64, 64 * (n - 1) as nat);
        lemma_pow2_64();
    }
}
pub proof fn lemma_lvr_is_lv(s: Seq<u64>, n: nat)
    requires n <= s.len()
    ensures lvr(s, 0, n as int) == lv(s, n)
    decreases n
{
    if n > 0 {
        lemma_lvr_is_lv(s, (n - 1) as nat);
        lemma_lvr_push(s, 0, n - 1);
        lemma_bp_is_pow2((n - 1) as nat);
        assert(bp(n - 1) * s[n - 1] as int == (s[n - 1] as nat) * pow2(64 * (n - 1) as nat)) by(nonlinear_arith)
            requires bp(n - 1) == pow2(64 * (n - 1) as nat);
    }
}

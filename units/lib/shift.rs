// ===== bit-level lemmas: shifts as multiplication/division, funnel-shift fetches, leading_zeros =====
// (hi << s) | (lo >> (64-s))  for u64 words, 0 < s < 64:
//   == (hi mod 2^(64-s)) * 2^s + lo / 2^(64-s)
pub proof fn lemma_shl_or_shr_u64(hi: u64, lo: u64, s: u32)
    requires 0 < s < 64
    ensures
        ((hi << s) | (lo >> (64 - s))) as int
            == ((hi as int) % (pow2((64 - s) as nat) as int)) * pow2(s as nat) + (lo as int) / (pow2((64 - s) as nat) as int),
        (lo as int) / (pow2((64 - s) as nat) as int) < pow2(s as nat),
{
    let c: u32 = (64 - s) as u32;
    let a = hi << s;
    let b = lo >> c;
    // disjoint bits: or == add
    assert(a | b == a + b) by(bit_vector) requires a == hi << s, b == lo >> c, c == 64 - s, 0 < s < 64;
    assert(a as int + b as int <= u64::MAX as int) by {
        assert(a | b <= 0xffff_ffff_ffff_ffffu64) by(bit_vector);
    }
    // b == lo / 2^c
    lemma_u64_shr_is_div(lo, c as u64);
    // a == (hi & mask(c)) << s == (hi % 2^c) * 2^s
    let m: u64 = hi & (((1u64 << c) - 1) as u64);
    assert(hi << s == m << s) by(bit_vector) requires m == hi & (((1u64 << c) - 1) as u64), c == 64 - s, 0 < s < 64;
    assert(m < (1u64 << c)) by(bit_vector) requires m == hi & (((1u64 << c) - 1) as u64), 0 < c < 64;
    lemma_u64_pow2_no_overflow(c as nat);
    lemma_u64_shl_is_mul(1, c as u64);
    assert((1u64 << c) as int == pow2(c as nat));
    lemma_u64_low_bits_mask_is_mod(hi, c as nat);
    assert(low_bits_mask(c as nat) == pow2(c as nat) - 1);
    assert(m as int == (hi as int) % (pow2(c as nat) as int));
    // m * 2^s < 2^64
    lemma_pow2_adds(c as nat, s as nat);
    lemma2_to64();
    lemma_pow2_pos(s as nat);
    assert((m as int) * pow2(s as nat) < pow2(64)) by(nonlinear_arith)
        requires (m as int) < pow2(c as nat), pow2(c as nat) * pow2(s as nat) == pow2(64), pow2(s as nat) > 0;
    lemma_u64_shl_is_mul(m, s as u64);
    assert((m << s) as int == (m as int) * pow2(s as nat));
    // bound on b
    lemma_pow2_pos(c as nat);
    assert((lo as int) / (pow2(c as nat) as int) < pow2(s as nat)) by {
        lemma_div_by_multiple_is_strongly_ordered(lo as int, pow2(64) as int, pow2(s as nat) as int, pow2(c as nat) as int);
        lemma_div_multiples_vanish(pow2(s as nat) as int, pow2(c as nat) as int);
        lemma_mul_is_commutative(pow2(s as nat) as int, pow2(c as nat) as int);
    }
}


// u128: a << s == a * 2^s when nothing is shifted out
pub proof fn lemma_u128_shl_is_mul(a: u128, s: u32)
    requires s < 128, (a as int) * pow2(s as nat) < 0x1_0000_0000_0000_0000_0000_0000_0000_0000
    ensures (a << s) as int == (a as int) * pow2(s as nat)
    decreases s
{
    if s == 0 {
        assert(a << 0u32 == a) by(bit_vector);
        lemma2_to64();
        assert((a as int) * 1 == a as int) by(nonlinear_arith);
    } else {
        let s1 = (s - 1) as u32;
        lemma_pow2_unfold(s as nat);
        lemma_pow2_pos(s1 as nat);
        assert((a as int) * pow2(s1 as nat) * 2 == (a as int) * pow2(s as nat)) by(nonlinear_arith) requires pow2(s as nat) == 2 * pow2(s1 as nat);
        assert((a as int) * pow2(s1 as nat) <= (a as int) * pow2(s as nat)) by(nonlinear_arith) requires pow2(s as nat) == 2 * pow2(s1 as nat), a as int >= 0, pow2(s1 as nat) > 0;
        lemma_u128_shl_is_mul(a, s1);
        let x = a << s1;
        assert(a << s == (a << s1) << 1u32) by(bit_vector) requires s1 == s - 1, 0 < s < 128;
        assert(x << 1u32 == x * 2) by(bit_vector) requires x < 0x8000_0000_0000_0000_0000_0000_0000_0000u128;
    }
}

// the three leading limbs of ((x3,x2,x1,x0) << s) as integers
pub proof fn lemma_fetch4(x3: int, x2: int, x1: int, x0: int, c: int, s2: int, hi: int, lo: int)
    requires
        c >= 1, s2 >= 1, B == c * s2, 0 <= x1, 0 <= x0,
        hi == (x3 * B + x2) * s2 + x1 / c,
        lo == (x1 % c) * s2 + x0 / c,
    ensures
        ({
            let t = hi * B + lo;
            let x4 = ((x3 * B + x2) * B + x1) * B + x0;
            t * B <= x4 * s2 && x4 * s2 <= t * B + B - s2
        })
{
    lemma_fundamental_div_mod(x1, c);
    lemma_fundamental_div_mod(x0, c);
    lemma_mod_bound(x0, c);
    let t = hi * B + lo;
    let x4 = ((x3 * B + x2) * B + x1) * B + x0;
    let q1 = x1 / c; let r1 = x1 % c; let q0 = x0 / c; let r0 = x0 % c;
    assert(x4 * s2 - t * B == r0 * s2) by(nonlinear_arith)
        requires x4 == ((x3 * B + x2) * B + x1) * B + x0, t == hi * B + lo,
                 hi == (x3 * B + x2) * s2 + q1, lo == r1 * s2 + q0, x1 == c * q1 + r1, x0 == c * q0 + r0, B == c * s2;
    assert(0 <= r0 * s2 <= (c - 1) * s2) by(nonlinear_arith) requires 0 <= r0 <= c - 1, s2 >= 1;
    assert((c - 1) * s2 == B - s2) by(nonlinear_arith) requires B == c * s2;
}

pub proof fn lemma_fetch3(y2: int, y1: int, y0: int, c: int, s2: int, dv: int)
    requires c >= 1, s2 >= 1, B == c * s2, 0 <= y0, dv == (y2 * B + y1) * s2 + y0 / c,
    ensures ({ let y3 = (y2 * B + y1) * B + y0; dv * B <= y3 * s2 && y3 * s2 <= dv * B + B - s2 })
{
    lemma_fundamental_div_mod(y0, c);
    lemma_mod_bound(y0, c);
    let q0 = y0 / c; let r0 = y0 % c;
    let y3 = (y2 * B + y1) * B + y0;
    assert(y3 * s2 - dv * B == r0 * s2) by(nonlinear_arith)
        requires y3 == (y2 * B + y1) * B + y0, dv == (y2 * B + y1) * s2 + q0, y0 == c * q0 + r0, B == c * s2;
    assert(0 <= r0 * s2 <= (c - 1) * s2) by(nonlinear_arith) requires 0 <= r0 <= c - 1, s2 >= 1;
    assert((c - 1) * s2 == B - s2) by(nonlinear_arith) requires B == c * s2;
}

// A (to be discharged from vstd's axiom or by a full-domain Kani obligation): leading_zeros of a non-zero word
#[verifier::external_body]
pub proof fn lemma_lz_facts(x: u64)
    requires x >= 1
    ensures
        u64_leading_zeros(x) < 64,
        (x as int) * pow2(u64_leading_zeros(x) as nat) < B,
        (x as int) * pow2(u64_leading_zeros(x) as nat) >= B / 2,
{}

// (a << s) | b  ==  a*2^s + b   for a 128-bit a with no bits shifted out and b < 2^s
pub proof fn lemma_u128_shl_or(a: u128, b: u64, s: u32)
    requires 0 < s < 64, (a as int) * pow2(s as nat) < 0x1_0000_0000_0000_0000_0000_0000_0000_0000, (b as int) < pow2(s as nat)
    ensures ((a << s) | (b as u128)) as int == (a as int) * pow2(s as nat) + b as int
{
    lemma_u128_shl_is_mul(a, s);
    lemma_u64_pow2_no_overflow(s as nat);
    lemma_u64_shl_is_mul(1, s as u64);
    assert((1u64 << s) as int == pow2(s as nat));
    assert(b < (1u64 << s));
    let x = a << s;
    assert((x | (b as u128)) == x + (b as u128)) by(bit_vector)
        requires x == a << s, b < (1u64 << s), 0 < s < 64, x <= 0xffff_ffff_ffff_ffff_ffff_ffff_ffff_ffffu128 - 0xffff_ffff_ffff_ffffu128 || true;
}


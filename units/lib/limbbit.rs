// shared by units that reason about single bits of a limb sequence (proved in every unit that includes it)
// bit 64*l + b of a limb sequence's value is bit b of limb l
pub proof fn lemma_limb_bit(s: Seq<u64>, n: int, l: int, b: nat)
    requires 0 <= l < n <= s.len(), b < 64
    ensures vbit(lvr(s, 0, n) as nat, (64 * l + b) as nat) == vbit(s[l] as nat, b), lvr(s, 0, n) >= 0
{
    let v = lvr(s, 0, n);
    let lo = lvr(s, 0, l); let x = s[l] as int; let hi = lvr(s, l + 1, n);
    lemma_lvr_split(s, 0, l, n);
    lemma_lvr_bound(s, 0, l); lemma_lvr_bound(s, l + 1, n); lemma_lvr_bound(s, 0, n);
    assert(lvr(s, l, n) == x + B * hi);
    lemma_bp_pos(l); lemma_bp_is_pow2(l as nat);
    let pb = pow2(b) as int; let pc = pow2((64 - b) as nat) as int;
    lemma_pow2_pos(b); lemma_pow2_pos((64 - b) as nat);
    lemma_pow2_adds((64 * l) as nat, b);
    lemma_pow2_adds(b, (64 - b) as nat); lemma_pow2_64();
    // v / (bp(l) * 2^b) == (v / bp(l)) / 2^b == (x + B*hi) / 2^b
    let top = x + B * hi;
    assert(top >= 0) by(nonlinear_arith) requires top == x + B * hi, x >= 0, hi >= 0;
    assert(v == top * bp(l) + lo) by(nonlinear_arith) requires v == lo + bp(l) * top;
    lemma_fundamental_div_mod_converse(v, bp(l), top, lo);
    lemma_div_denominator(v, bp(l), pb);
    assert(v / (bp(l) * pb) == top / pb);
    // (x + 2^b * (2^(64-b) * hi)) / 2^b == x / 2^b + 2^(64-b) * hi
    assert(B * hi == pb * (pc * hi)) by(nonlinear_arith) requires pb * pc == B;
    lemma_fundamental_div_mod(x, pb);
    lemma_mod_bound(x, pb);
    let q = x / pb; let r = x % pb;
    assert(top == pb * (q + pc * hi) + r) by(nonlinear_arith) requires top == x + pb * (pc * hi), x == pb * q + r;
    lemma_fundamental_div_mod_converse(top, pb, q + pc * hi, r);
    // 2^(64-b) * hi is even
    lemma_pow2_unfold((64 - b) as nat);
    let ph = pow2((63 - b) as nat) as int;
    assert(pc * hi == 2 * (ph * hi)) by(nonlinear_arith) requires pc == 2 * ph;
    lemma_mod_multiples_vanish(ph * hi, q, 2);
    assert((2 * (ph * hi) + q) % 2 == q % 2);
    assert(q + pc * hi == 2 * (ph * hi) + q);
}

// bits at or above the size of the value are zero
pub proof fn lemma_high_bit_zero(v: nat, i: nat)
    requires v < pow2(i)
    ensures !vbit(v, i)
{
    lemma_pow2_pos(i);
    lemma_basic_div(v as int, pow2(i) as int);
}


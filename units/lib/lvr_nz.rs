// a non-zero limb makes the range value positive
pub proof fn lemma_lvr_nonzero(s: Seq<u64>, lo: int, hi: int, j: int)
    requires 0 <= lo <= j < hi <= s.len(), s[j] != 0
    ensures lvr(s, lo, hi) >= 1
{
    lemma_lvr_split(s, lo, j, hi);
    lemma_lvr_bound(s, lo, j);
    lemma_lvr_bound(s, j + 1, hi);
    lemma_bp_pos(j - lo);
    let t = lvr(s, j + 1, hi);
    assert(lvr(s, j, hi) == s[j] as int + B * t);
    assert(s[j] as int + B * t >= 1) by(nonlinear_arith) requires s[j] as int >= 1, t >= 0;
    assert(bp(j - lo) * lvr(s, j, hi) >= 1) by(nonlinear_arith) requires bp(j - lo) >= 1, lvr(s, j, hi) >= 1;
}

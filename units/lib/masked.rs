// copy of unit core's lemma_masked (proved there too) for units that mask a limb array themselves
impl<const BITS: usize, const LIMBS: usize> Uint<BITS, LIMBS> {
    // the effect of `if SHOULD_MASK { limbs[LIMBS-1] &= MASK }` on the abstract value
    pub proof fn lemma_masked(self, this: Self)
        requires Self::sized(),
            forall|j: int| 0 <= j < LIMBS - 1 ==> this.limbs[j] == self.limbs[j],
            (BITS > 0 && spec_mask(BITS) != u64::MAX) ==> this.limbs[LIMBS - 1] == self.limbs[LIMBS - 1] & spec_mask(BITS),
            !(BITS > 0 && spec_mask(BITS) != u64::MAX) ==> this.limbs@ == self.limbs@,
        ensures this.wf(), this.val() == self.val() % pow2(BITS as nat)
    {
        if BITS > 0 && spec_mask(BITS) != u64::MAX {
            let top0 = self.limbs[LIMBS - 1];
            let n = (LIMBS - 1) as nat;
            let k = (BITS % 64) as nat;
            let w = pow2(64 * n);
            let top1 = this.limbs[LIMBS - 1];
            assert(k != 0);
            lemma_u64_pow2_no_overflow(k);
            lemma_pow2_pos(k);
            assert(low_bits_mask(k) == pow2(k) - 1);
            assert(spec_mask(BITS) == low_bits_mask(k) as u64);
            assert(top1 == top0 & (low_bits_mask(k) as u64));
            lemma_u64_low_bits_mask_is_mod(top0, k);
            assert(top1 as nat == (top0 as nat) % pow2(k));
            lemma_pow2_pos(64 * n);
            assert(top1 <= spec_mask(BITS)) by { lemma_mod_bound(top0 as int, pow2(k) as int); }
            let low = lv(self.limbs@, n);
            lemma_lv_ext(self.limbs@, this.limbs@, n);
            lemma_lv_bound(self.limbs@, n);
            assert(this.val() == low + (top1 as nat) * w);
            assert(self.val() == low + (top0 as nat) * w);
            lemma_pow2_adds(64 * n, k);
            let x = (low + (top0 as nat) * w) as int;
            lemma_mod_breakdown(x, w as int, pow2(k) as int);
            lemma_mul_is_commutative(top0 as int, w as int);
            lemma_fundamental_div_mod_converse(x, w as int, top0 as int, low as int);
            assert(x / (w as int) == top0 as int);
            assert(x % (w as int) == low as int);
            assert(x % ((w * pow2(k)) as int) == (w as int) * ((top0 as int) % (pow2(k) as int)) + low as int);
            lemma_mul_is_commutative(w as int, top1 as int);
            assert(pow2(BITS as nat) == w * pow2(k));
            assert(this.val() as int == x % (pow2(BITS as nat) as int));
        } else {
            if BITS > 0 {
                lemma_lv_bound(self.limbs@, LIMBS as nat);
                assert(spec_mask(BITS) == u64::MAX);
                assert(BITS % 64 == 0) by {
                    if BITS % 64 != 0 {
                        let k = (BITS % 64) as nat;
                        lemma_u64_pow2_no_overflow(k);
                        assert(low_bits_mask(k) == pow2(k) - 1);
                        lemma_pow2_strictly_increases(k, 64);
                        lemma_pow2_64();
                    }
                }
                assert(BITS == 64 * LIMBS);
                lemma_pow2_pos(BITS as nat);
                lemma_small_mod(self.val(), pow2(BITS as nat));
            } else {
                lemma2_to64();
                assert(self.val() == 0);
            }
        }
    }
}

// the outcome the property prescribes for converting the number v
pub open spec fn conv_ok<const BITS: usize, const LIMBS: usize>(r: Result<Uint<BITS, LIMBS>, ToUintError<Uint<BITS, LIMBS>>>, v: nat) -> bool {
    if v < pow2(BITS as nat) {
        r is Ok && r->Ok_0.wf() && r->Ok_0.val() == v
    } else {
        r is Err && r->Err_0 is ValueTooLarge && r->Err_0->ValueTooLarge_0 == BITS
            && r->Err_0->ValueTooLarge_1.wf() && r->Err_0->ValueTooLarge_1.val() == v % pow2(BITS as nat)
    }
}

// ---- the Lehmer update matrix (src/algorithms/gcd/matrix.rs) ----
// Signs are implicit (matrix.rs): .4 == true means [ .0 -.1; -.2 .3 ], false means [ -.0 .1; .2 -.3 ].
// The contract `lehmer_ok` (lib/lehmer_spec.rs) says: `from(a, b)` for a >= b returns either the identity or a cofactor matrix
// that maps (a, b) exactly (over the integers) to a later pair (c, d) of a remainder sequence (0 <= d <= c <= a, d < b, same
// gcd), has determinant +1 / -1 according to .4, top row elementwise below its bottom row and entries not above a.
// This is the last sentence of property C12 plus the cofactor shape. It is PROVED: unit lehmer (IDENTITY, from_u64, apply, and
// `from`'s dispatch over the bit length) and unit jebelean (from_u64_prefix with Jebelean's exactness conditions, from_u128_prefix).
// What remains assumed is only the derived `==` on Matrix (structural equality).
impl PartialEqSpecImpl for Matrix {
    open spec fn obeys_eq_spec() -> bool { true }
    open spec fn eq_spec(&self, other: &Self) -> bool { *self == *other }
}
impl PartialEq for Matrix {
    // derived
    #[verifier::external_body]
    fn eq(&self, other: &Self) -> (r: bool) { unimplemented!() }
}

// ---- ASSUMED (label A): LehmerMatrix::from, the construction of the update matrix (src/algorithms/gcd/matrix.rs) ----
// Signs are implicit (matrix.rs): .4 == true means [ .0 -.1; -.2 .3 ], false means [ -.0 .1; .2 -.3 ].
// `from(a, b)` for a >= b returns either the identity or a cofactor matrix of a non-empty run of Euclid steps on (a, b):
// it maps (a, b) exactly (over the integers) to a later pair (c, d) of the remainder sequence (0 <= d <= c <= a, d < b, same gcd),
// its determinant is +1 / -1 according to .4, its top row is elementwise below its bottom row (every cofactor matrix of
// k >= 1 Euclid steps has that shape) and its entries do not exceed a. This is the last sentence of property C12 plus the cofactor
// shape. PROVED in unit lehmer: from_u64 (what `from` calls for operands of at most 64 bits) meets exactly this contract, and
// `apply` evaluates the signed map modulo 2^BITS. NOT under proof: `from`'s dispatch (bit_len, conversions, prefix shift),
// from_u64_prefix / from_u128_prefix (Jebelean's exactness conditions), compose. Kani checks gcd by enumeration at 3-4 bits only.
impl PartialEqSpecImpl for Matrix {
    open spec fn obeys_eq_spec() -> bool { true }
    open spec fn eq_spec(&self, other: &Self) -> bool { *self == *other }
}
impl PartialEq for Matrix {
    // derived
    #[verifier::external_body]
    fn eq(&self, other: &Self) -> (r: bool) { unimplemented!() }
}
impl Matrix {
    #[verifier::external_body]
    pub fn from<const BITS: usize, const LIMBS: usize>(a: Uint<BITS, LIMBS>, b: Uint<BITS, LIMBS>) -> (m: Self)
        requires a.wf(), b.wf(), a.val() >= b.val()
        ensures !is_identity(m) ==> lehmer_ok(m, a.val() as int, b.val() as int)
    { unimplemented!() }
}

// ---- ASSUMED (label A): the Lehmer update matrix (src/algorithms/gcd/matrix.rs) ----
// Signs are implicit (matrix.rs): .4 == true means [ .0 -.1; -.2 .3 ], false means [ -.0 .1; .2 -.3 ].
// `from(a, b)` for a >= b returns either the identity or a cofactor matrix of a non-empty run of Euclid steps on (a, b):
// it maps (a, b) exactly (over the integers) to a later pair (c, d) of the remainder sequence (0 <= d <= c <= a, d < b, same gcd),
// its determinant is +1 / -1 according to .4, and its top row is elementwise below its bottom row (every cofactor matrix of
// k >= 1 Euclid steps has that shape). `apply` evaluates the signed map modulo 2^BITS.
// This is the last sentence of property C12 plus the cofactor shape; the construction (from_u64, from_u64_prefix,
// from_u128_prefix, Jebelean's conditions) is not under proof. Kani checks it at tiny sizes only (c10/c12).
pub struct LehmerMatrix(pub u64, pub u64, pub u64, pub u64, pub bool);
impl PartialEqSpecImpl for LehmerMatrix {
    open spec fn obeys_eq_spec() -> bool { true }
    open spec fn eq_spec(&self, other: &Self) -> bool { *self == *other }
}
impl PartialEq for LehmerMatrix {
    #[verifier::external_body]
    fn eq(&self, other: &Self) -> (r: bool) { unimplemented!() }
}
impl LehmerMatrix {
    #[verifier::external_body]
    pub fn IDENTITY() -> (r: Self) ensures is_identity(r), r == LehmerMatrix(1, 0, 0, 1, true) { unimplemented!() }
    #[verifier::external_body]
    pub fn from<const BITS: usize, const LIMBS: usize>(a: Uint<BITS, LIMBS>, b: Uint<BITS, LIMBS>) -> (m: Self)
        requires a.wf(), b.wf(), a.val() >= b.val()
        ensures !is_identity(m) ==> lehmer_ok(m, a.val() as int, b.val() as int)
    { unimplemented!() }
    #[verifier::external_body]
    pub fn apply<const BITS: usize, const LIMBS: usize>(&self, a: &mut Uint<BITS, LIMBS>, b: &mut Uint<BITS, LIMBS>)
        requires old(a).wf(), old(b).wf()
        ensures final(a).wf(), final(b).wf(),
            final(a).val() as int == maps(*self, old(a).val() as int, old(b).val() as int).0 % m2(BITS),
            final(b).val() as int == maps(*self, old(a).val() as int, old(b).val() as int).1 % m2(BITS),
    { unimplemented!() }
}

// unit modular: src/modular.rs — reduce_mod, add_mod, mul_mod, pow_mod, Uint::mul_redc, Uint::square_redc  (C10, C11)
#![allow(non_snake_case)]
use vstd::prelude::*;
use vstd::arithmetic::power::*;
use vstd::arithmetic::power2::*;
use vstd::arithmetic::mul::*;
use vstd::arithmetic::div_mod::*;
use vstd::bits::*;
use vstd::std_specs::cmp::*;
use vstd::std_specs::ops::*;
verus! {
//@ include lib/base.rs
//@ include lib/lvr.rs

//@ extract src/lib.rs struct Uint
pub struct Uint<const BITS: usize, const LIMBS: usize> { pub
    limbs: [u64; LIMBS],
}
//@ end

//@ include lib/uint_spec.rs
//@ include lib/uint_ops.rs
//@ include lib/lvi.rs

//@ import mul_redc mul_redc
//@ import mul_redc square_redc
pub open spec fn total(old_s: Seq<u64>, a0: Seq<u64>, b0: Seq<u64>) -> int {
    lvr(old_s, 0, old_s.len() as int) + lvr(a0, 0, a0.len() as int) * lvr(b0, 0, b0.len() as int)
}
//@ import addmul addmul
//@ import divd div
//@ import core nlimbs
pub mod algorithms { pub use super::mul_redc; pub use super::square_redc; pub use super::addmul; pub use super::div; }

// ASSUMED (label A, normalisation N19): `unsafe { core::slice::from_raw_parts_mut(product.as_mut_ptr().cast::<u64>(), len) }` on a local
// `[[u64; 2]; N]` - the memory-layout fact that an array of N limb pairs is 2N consecutive limbs (element 2i + j is store[i][j])
#[verifier::external_body]
pub fn limb_pairs_as_slice<const N: usize>(store: &mut [[u64; 2]; N], len: usize) -> (r: &mut [u64])
    requires len <= 2 * N
    ensures r@.len() == len, forall|k: int| 0 <= k < len ==> r@[k] == old(store)[k / 2][k % 2]
{ unimplemented!() }

pub proof fn lemma_lv_first(s: Seq<u64>, n: nat)
    requires 1 <= n <= s.len()
    ensures lv(s, n) % 2 == (s[0] as nat) % 2, lv(s, n) >= s[0] as nat
    decreases n
{
    if n == 1 {
        lemma2_to64();
        assert(lv(s, 1) == lv(s, 0) + (s[0] as nat) * pow2(0));
        assert((s[0] as nat) * 1 == s[0] as nat) by(nonlinear_arith);
    } else {
        lemma_lv_first(s, (n - 1) as nat);
        let w = pow2(64 * (n - 1) as nat);
        lemma_pow2_adds(1, (64 * (n - 1) - 1) as nat); lemma2_to64();
        let h = pow2((64 * (n - 1) - 1) as nat);
        assert(w == 2 * h);
        let t = (s[n - 1] as nat) * w;
        assert(t == 2 * ((s[n - 1] as nat) * h)) by(nonlinear_arith) requires t == (s[n - 1] as nat) * w, w == 2 * h;
        lemma_mod_multiples_vanish(((s[n - 1] as nat) * h) as int, lv(s, (n - 1) as nat) as int, 2);
    }
}
pub proof fn lemma_pow_step(s: int, e: nat)
    requires e > 0
    ensures pow(s, e) == pow(s * s, e / 2) * (if e % 2 == 1 { s } else { 1 })
{
    let h = e / 2;
    lemma_pow_multiplies(s, 2, h);
    reveal(pow);
    assert(pow(s, 2) == s * pow(s, 1)); assert(pow(s, 1) == s * pow(s, 0)); assert(pow(s, 0) == 1);
    assert(s * 1 == s) by(nonlinear_arith);
    if e % 2 == 1 { assert(e == 2 * h + 1); lemma_pow_adds(s, 2 * h, 1); lemma_pow1(s); }
    else { assert(e == 2 * h); assert(pow(s * s, h) * 1 == pow(s * s, h)) by(nonlinear_arith); }
}

// pow(x, e) % m depends only on x % m
pub proof fn lemma_pow_mod_base(x: int, y: int, e: nat, m: int)
    requires m > 0, x % m == y % m
    ensures pow(x, e) % m == pow(y, e) % m
    decreases e
{
    reveal(pow);
    if e > 0 {
        lemma_pow_mod_base(x, y, (e - 1) as nat, m);
        lemma_mul_mod_noop_general(x, pow(x, (e - 1) as nat), m);
        lemma_mul_mod_noop_general(y, pow(y, (e - 1) as nat), m);
    }
}

impl<const BITS: usize, const LIMBS: usize> Uint<BITS, LIMBS> {
//@ import core ZERO
//@ import core from_limbs
//@ import core as_limbs
//@ import basics ONE
//@ import basics is_zero
//@ import add overflowing_add

    // 2^(2*BITS) <= B^(nlimbs(2*BITS)): the double-width product buffer holds the full product
    pub proof fn lemma_product_fits(a: int, b: int, pl: int)
        requires 0 <= a < pow2(BITS as nat), 0 <= b < pow2(BITS as nat), pl == (2 * BITS + 63) / 64
        ensures 0 <= a * b < bp(pl)
    {
        let m = pow2(BITS as nat) as int;
        lemma_pow2_adds(BITS as nat, BITS as nat);
        assert(0 <= a * b <= (m - 1) * (m - 1)) by(nonlinear_arith) requires 0 <= a <= m - 1, 0 <= b <= m - 1;
        assert((m - 1) * (m - 1) < m * m) by(nonlinear_arith) requires m >= 1;
        lemma_bp_is_pow2(pl as nat);
        if 2 * BITS < 64 * pl { lemma_pow2_strictly_increases((2 * BITS) as nat, (64 * pl) as nat); }
    }

//@ extract src/modular.rs fn mul_mod rewrite="crate :: nlimbs" => "nlimbs" #1
    pub fn mul_mod(self, rhs: Self, modulus: Self) -> /*+*/(r:/*-*/ Self/*+*/)
        requires self.wf(), rhs.wf(), modulus.wf(), BITS <= (usize::MAX - 63) / 2
        ensures r.wf(),
            modulus.val() == 0 ==> r.val() == 0,
            modulus.val() != 0 ==> r.val() as int == ((self.val() * rhs.val()) as int) % (modulus.val() as int),/*-*/
    { let mut modulus = modulus ;
        if modulus.is_zero() {
            return Self::ZERO();
        }
        /*+*/let ghost mv = modulus.val() as int; let ghost av = self.val() as int; let ghost bv = rhs.val() as int;
        let ghost m0 = modulus;/*-*/
        let mut product = [[0u64; 2]; LIMBS];
        let product_len = nlimbs(2 * BITS);
        vassert (2 * LIMBS >= product_len );
        let product = limb_pairs_as_slice ( & mut product , product_len );
        /*+*/let ghost pl = product_len as int;
        let ghost p0 = product@;
        proof {
            lemma_lvr_zero(p0, 0, pl);
            lemma_lvr_is_lv(self.limbs@, LIMBS as nat); lemma_lvr_is_lv(rhs.limbs@, LIMBS as nat); lemma_lvr_is_lv(modulus.limbs@, LIMBS as nat);
            self.lemma_wf_lt(); rhs.lemma_wf_lt();
            Self::lemma_product_fits(av, bv, pl);
            assert(total(p0, self.limbs@, rhs.limbs@) == av * bv);
            lemma_small_mod((av * bv) as nat, bp(pl) as nat);
        }/*-*/
        let overflow = algorithms::addmul(product, self.as_limbs(), rhs.as_limbs());
        vassert (!overflow );
        algorithms::div(product, &mut modulus.limbs);
        /*+*/proof {
            // product_before == q * m + r with 0 <= r < m, and r is what is left in `modulus`
            let q = lvr(product@, 0, pl); let rr = lvr(modulus.limbs@, 0, LIMBS as int);
            lemma_lvr_is_lv(modulus.limbs@, LIMBS as nat);
            lemma_lvr_bound(product@, 0, pl);
            lemma_fundamental_div_mod_converse(av * bv, mv, q, rr);
            m0.lemma_wf_lt();
            if BITS > 0 { modulus.lemma_wf_iff_lt(); } else { lemma2_to64(); }
        }/*-*/
        modulus
    }
//@ end

//@ extract src/modular.rs fn reduce_mod
    pub fn reduce_mod(self, modulus: Self) -> /*+*/(r:/*-*/ Self/*+*/)
        requires self.wf(), modulus.wf(), BITS <= usize::MAX - 63
        ensures r.wf(),
            modulus.val() == 0 ==> r.val() == 0,
            modulus.val() != 0 ==> r.val() as int == self.val() as int % modulus.val() as int,/*-*/
    { let mut this = self ;
        if modulus.is_zero() {
            return Self::ZERO();
        }
        /*+*/proof { if self.val() < modulus.val() { lemma_small_mod(self.val(), modulus.val()); } }/*-*/
        if this >= modulus {
            this %= modulus;
        }
        this
    }
//@ end

//@ extract src/modular.rs fn add_mod
    pub fn add_mod(self, rhs: Self, modulus: Self) -> /*+*/(r:/*-*/ Self/*+*/)
        requires self.wf(), rhs.wf(), modulus.wf(), BITS <= usize::MAX - 63
        ensures r.wf(),
            modulus.val() == 0 ==> r.val() == 0,
            modulus.val() != 0 ==> r.val() as int == ((self.val() + rhs.val()) as int) % (modulus.val() as int),/*-*/
    {
        /*+*/let ghost x = self.val() as int; let ghost y = rhs.val() as int;/*-*/
        let lhs = self.reduce_mod(modulus);
        let rhs = rhs.reduce_mod(modulus);
        let (mut result, overflow) = lhs.overflowing_add(rhs);
        /*+*/let ghost res0 = result;
        let ghost m = modulus.val() as int; let ghost a = lhs.val() as int; let ghost b = rhs.val() as int; let ghost mm = m2(BITS);
        let ghost s = a + b;
        proof {
            modulus.lemma_wf_lt(); lemma_pow2_pos(BITS as nat);
            if m == 0 {
                lemma_small_mod(0, mm as nat);
                assert(res0.val() == 0);
            } else {
                lemma_mod_bound(x, m); lemma_mod_bound(y, m);
                lemma_add_mod_noop(x, y, m);          // ((x % m) + (y % m)) % m == (x + y) % m
                assert(s % m == (x + y) % m);
                if overflow {
                    lemma_fundamental_div_mod_converse(s, mm, 1, s - mm);
                    assert(res0.val() as int == s - mm);
                    // (res0 - m) mod mm == s - m
                    lemma_mod_multiples_vanish(-1, s - m, mm);
                    lemma_small_mod((s - m) as nat, mm as nat);
                    assert((res0.val() as int - m) % mm == s - m);
                    lemma_fundamental_div_mod_converse(s, m, 1, s - m);
                } else {
                    lemma_small_mod(s as nat, mm as nat);
                    assert(res0.val() as int == s);
                    if s >= m {
                        lemma_small_mod((s - m) as nat, mm as nat);
                        lemma_fundamental_div_mod_converse(s, m, 1, s - m);
                    } else {
                        lemma_small_mod(s as nat, m as nat);
                    }
                }
            }
        }/*-*/
        if overflow || result >= modulus {
            result -= modulus;
        }
        result
    }
//@ end
    // one square-and-multiply step modulo m
    pub proof fn lemma_pow_mod_step(r: int, t: int, e: nat, m: int, r2: int, t2: int)
        requires m > 0, e > 0,
            t2 == (t * t) % m,
            e % 2 == 1 ==> r2 == (r * t) % m,
            e % 2 == 0 ==> r2 == r,
        ensures (r2 * pow(t2, e / 2)) % m == (r * pow(t, e)) % m
    {
        let h = e / 2;
        lemma_pow_step(t, e);
        lemma_mod_bound(t * t, m);
        lemma_mod_twice(t * t, m);
        lemma_pow_mod_base(t2, t * t, h, m);           // pow(t2,h) % m == pow(t*t,h) % m
        let p = pow(t * t, h);
        let p2 = pow(t2, h);
        lemma_mul_mod_noop_right(r2, p2, m); lemma_mul_mod_noop_right(r2, p, m);
        if e % 2 == 1 {
            lemma_mul_mod_noop_left(r * t, p, m);
            assert((r * t) * p == r * (p * t)) by(nonlinear_arith);
        } else {
            assert(r * (p * 1) == r * p) by(nonlinear_arith);
        }
    }

//@ extract src/modular.rs fn pow_mod
    pub fn pow_mod(self, exp: Self, modulus: Self) -> /*+*/(r:/*-*/ Self/*+*/)
        requires self.wf(), exp.wf(), modulus.wf(), BITS <= (usize::MAX - 63) / 2
        ensures r.wf(),
            modulus.val() <= 1 || BITS == 0 ==> r.val() == 0,
            modulus.val() >= 2 && BITS > 0 ==> r.val() as int == pow(self.val() as int, exp.val()) % (modulus.val() as int),/*-*/
    { let mut this = self ; let mut exp = exp ;
        if BITS == 0 || modulus <= Self::ONE() {
            /*+*/proof { if BITS == 0 { lemma2_to64(); assert(modulus.val() == 0); } }/*-*/
            return Self::ZERO();
        }
        /*+*/let ghost a = self.val() as int; let ghost e0 = exp.val(); let ghost m = modulus.val() as int;/*-*/
        let mut result = Self::ONE();
        /*+*/proof {
            lemma_small_mod(1, m as nat);
            assert(1 * pow(a, e0) == pow(a, e0)) by(nonlinear_arith);
        }/*-*/
        while exp > Self::ZERO()
            /*+*/invariant
                BITS > 0, BITS <= (usize::MAX - 63) / 2, m == modulus.val(), m >= 2, modulus.wf(),
                exp.wf(), result.wf(), this.wf(),
                (result.val() as int * pow(this.val() as int, exp.val())) % m == pow(a, e0) % m,
                0 <= result.val() < m,
            decreases exp.val()/*-*/
        {
            /*+*/let ghost e = exp.val(); let ghost r_in = result.val() as int; let ghost t_in = this.val() as int;
            proof {
                assert(LIMBS >= 1);
                lemma_lv_first(exp.limbs@, LIMBS as nat);
                let w = exp.limbs[0];
                assert((w & 1 == 1) == (w % 2 == 1)) by(bit_vector);
            }/*-*/
            if exp.limbs[0] & 1 == 1 {
                result = result.mul_mod(this, modulus);
            }
            this = this.mul_mod(this, modulus);
            exp >>= 1;
            /*+*/proof {
                lemma2_to64();
                assert(exp.val() == e / 2);
                lemma_mod_bound(t_in * t_in, m);
                Self::lemma_pow_mod_step(r_in, t_in, e, m, result.val() as int, this.val() as int);
                if e % 2 == 1 { lemma_mod_bound(r_in * t_in, m); }
            }/*-*/
        }
        /*+*/proof {
            assert(exp.val() == 0);
            lemma_pow0(this.val() as int);
            assert(result.val() as int * 1 == result.val()) by(nonlinear_arith);
            lemma_small_mod(result.val(), m as nat);
        }/*-*/
        result
    }
//@ end
    // value of the limb array in the two vocabularies
    pub proof fn lemma_val_is_lvi(self)
        ensures self.val() as int == lvi(self.limbs@, LIMBS as int), pow2(64 * LIMBS as nat) as int == bp(LIMBS as int)
    {
        lemma_lvi_is_lvr(self.limbs@, LIMBS as int);
        lemma_lvr_is_lv(self.limbs@, LIMBS as nat);
        lemma_bp_is_pow2(LIMBS as nat);
    }

//@ extract src/modular.rs fn mul_redc
    pub fn mul_redc(self, other: Self, modulus: Self, inv: u64) -> /*+*/(r:/*-*/ Self/*+*/)
        requires self.wf(), other.wf(), modulus.wf(), BITS <= usize::MAX - 63,
            BITS > 0 ==> (inv as int * modulus.limbs[0] as int) % B == B - 1,
            BITS > 0 ==> self.val() < modulus.val() && other.val() < modulus.val(),
        ensures r.wf(),
            BITS == 0 ==> r.val() == 0,
            BITS > 0 ==> r.val() < modulus.val()
                && exists|mu: int| #[trigger] redc_rel(pow2(64 * LIMBS as nat) as int * r.val() as int, self.val() as int * other.val() as int, modulus.val() as int, mu),/*-*/
    {
        if BITS == 0 {
            return Self::ZERO();
        }
        /*+*/proof { self.lemma_val_is_lvi(); other.lemma_val_is_lvi(); modulus.lemma_val_is_lvi(); }/*-*/
        let result = algorithms::mul_redc(self.limbs, other.limbs, modulus.limbs, inv);
        /*+*/proof {
            let u = Uint::<BITS, LIMBS> { limbs: result };
            u.lemma_val_is_lvi(); u.lemma_wf_iff_lt(); modulus.lemma_wf_lt();
        }/*-*/
        let result = Self::from_limbs(result);
        /*+*/proof { result.lemma_val_is_lvi(); }/*-*/
        vassert (result < modulus );
        result
    }
//@ end

//@ extract src/modular.rs fn square_redc
    pub fn square_redc(self, modulus: Self, inv: u64) -> /*+*/(r:/*-*/ Self/*+*/)
        requires self.wf(), modulus.wf(), BITS <= usize::MAX - 63,
            BITS > 0 ==> (inv as int * modulus.limbs[0] as int) % B == B - 1,
            BITS > 0 ==> self.val() < modulus.val(),
        ensures r.wf(),
            BITS == 0 ==> r.val() == 0,
            BITS > 0 ==> r.val() < modulus.val()
                && exists|mu: int| #[trigger] redc_rel(pow2(64 * LIMBS as nat) as int * r.val() as int, self.val() as int * self.val() as int, modulus.val() as int, mu),/*-*/
    {
        if BITS == 0 {
            return Self::ZERO();
        }
        /*+*/proof { self.lemma_val_is_lvi(); modulus.lemma_val_is_lvi(); }/*-*/
        let result = algorithms::square_redc(self.limbs, modulus.limbs, inv);
        /*+*/proof {
            let u = Uint::<BITS, LIMBS> { limbs: result };
            u.lemma_val_is_lvi(); u.lemma_wf_iff_lt(); modulus.lemma_wf_lt();
        }/*-*/
        let result = Self::from_limbs(result);
        /*+*/proof { result.lemma_val_is_lvi(); }/*-*/
        vassert (result < modulus );
        result
    }
//@ end
}


} // verus!
fn main() {}

// unit frombase: src/base_convert.rs from_base_be - Horner evaluation of a big-endian digit string with exact overflow / digit errors  (C09)
#![allow(non_snake_case)]
use vstd::prelude::*;
use vstd::arithmetic::power::*;
use vstd::arithmetic::power2::*;
use vstd::arithmetic::mul::*;
use vstd::arithmetic::div_mod::*;
use vstd::bits::*;
use vstd::std_specs::iter::IteratorSpec;
verus! {
//@ include lib/base.rs
//@ include lib/lvr.rs

//@ extract src/lib.rs struct Uint
pub struct Uint<const BITS: usize, const LIMBS: usize> { pub
    limbs: [u64; LIMBS],
}
//@ end

//@ include lib/uint_spec.rs

//@ extract src/base_convert.rs enum BaseConvertError
pub enum BaseConvertError {
    Overflow,
    InvalidBase(u64),
    InvalidDigit(u64, u64),
}
//@ end

// positional notation, most significant digit first: the number the first k digits denote in the given base
pub open spec fn hv(d: Seq<u64>, k: int, base: int) -> int
    decreases k
{
    if k <= 0 { 0 } else { hv(d, k - 1, base) * base + d[k - 1] as int }
}
pub open spec fn all_valid(d: Seq<u64>, k: int, base: int) -> bool { forall|j: int| 0 <= j < k ==> (d[j] as int) < base }

pub proof fn lemma_hv_mono(d: Seq<u64>, i: int, k: int, base: int)
    requires 0 <= i <= k <= d.len(), base >= 1
    ensures 0 <= hv(d, i, base) <= hv(d, k, base)
    decreases k
{
    if k <= 0 { } else if i == k {
        if k > 0 { lemma_hv_mono(d, i - 1, k - 1, base);
            assert(hv(d, k - 1, base) * base >= 0) by(nonlinear_arith) requires hv(d, k - 1, base) >= 0, base >= 1; }
    } else {
        lemma_hv_mono(d, i, k - 1, base);
        assert(hv(d, k - 1, base) * base >= hv(d, k - 1, base)) by(nonlinear_arith) requires hv(d, k - 1, base) >= 0, base >= 1;
    }
}

// positional notation, least significant digit first
pub open spec fn bpw(base: int, k: int) -> int decreases k { if k <= 0 { 1 } else { base * bpw(base, k - 1) } }
pub open spec fn lev(d: Seq<u64>, k: int, base: int) -> int
    decreases k
{
    if k <= 0 { 0 } else { lev(d, k - 1, base) + d[k - 1] as int * bpw(base, k - 1) }
}
pub proof fn lemma_bpw_mono(base: int, i: int, k: int)
    requires 0 <= i <= k, base >= 1
    ensures 1 <= bpw(base, i) <= bpw(base, k)
    decreases k
{
    if i == k {
        if k > 0 { lemma_bpw_mono(base, k - 1, k - 1); assert(base * bpw(base, k - 1) >= 1) by(nonlinear_arith) requires base >= 1, bpw(base, k - 1) >= 1; }
    } else {
        lemma_bpw_mono(base, i, k - 1);
        assert(base * bpw(base, k - 1) >= bpw(base, k - 1)) by(nonlinear_arith) requires base >= 1, bpw(base, k - 1) >= 1;
    }
}
pub proof fn lemma_lev_mono(d: Seq<u64>, i: int, k: int, base: int)
    requires 0 <= i <= k <= d.len(), base >= 1
    ensures 0 <= lev(d, i, base) <= lev(d, k, base)
    decreases k
{
    if k <= 0 { } else {
        lemma_bpw_mono(base, k - 1, k - 1);
        assert(d[k - 1] as int * bpw(base, k - 1) >= 0) by(nonlinear_arith) requires d[k - 1] as int >= 0, bpw(base, k - 1) >= 1;
        if i == k { lemma_lev_mono(d, k - 1, k - 1, base); } else { lemma_lev_mono(d, i, k - 1, base); }
    }
}
// zero digits do not change the value
pub proof fn lemma_lev_zeros(d: Seq<u64>, i: int, k: int, base: int)
    requires 0 <= i <= k <= d.len(), forall|j: int| i <= j < k ==> d[j] == 0
    ensures lev(d, k, base) == lev(d, i, base)
    decreases k
{
    if i < k { lemma_lev_zeros(d, i, k - 1, base); assert(0 * bpw(base, k - 1) == 0) by(nonlinear_arith); }
}

//@ import kernels mul_nx1
//@ import kernels addmul_nx1

impl<const BITS: usize, const LIMBS: usize> Uint<BITS, LIMBS> {
//@ import core MASK
//@ import core ZERO
//@ import core as_limbs
//@ import basics ONE

//@ extract src/base_convert.rs fn from_base_be rewrite="from_base_be < I : IntoIterator < Item = u64 >> (" => "from_base_be(" #1 rewrite="digits : I ," => "digits: &[u64]," #1 rewrite="for digit in digits {" => "for digit_ref in digits.iter() { let digit = *digit_ref;" #1 rewrite="for limb in & mut result . limbs {" => "for limb in result.limbs.iter_mut() {" #1 rewrite="* limb = carry as u64 ;" => "*limb = #[verifier::truncate] (carry as u64);" #1
    pub fn from_base_be(
        base: u64,
        digits: &[u64],
    ) -> /*+*/(r:/*-*/ Result<Self, BaseConvertError>/*+*/)
        requires Self::sized(), BITS <= usize::MAX - 63
        ensures
            base < 2 ==> r == Err::<Self, BaseConvertError>(BaseConvertError::InvalidBase(base)),
            // the digit string is scanned from the most significant end; the first invalid digit or the first prefix
            // whose value leaves [0, 2^BITS) decides the error
            base >= 2 ==> (match r {
                Ok(u) => u.wf() && all_valid(digits@, digits.len() as int, base as int) && u.val() as int == hv(digits@, digits.len() as int, base as int),
                Err(BaseConvertError::InvalidDigit(d, b)) => b == base && d >= base && (exists|i: int| 0 <= i < digits.len() && digits[i] == d
                    && all_valid(digits@, i, base as int) && #[trigger] hv(digits@, i, base as int) < pow2(BITS as nat)),
                Err(BaseConvertError::Overflow) => exists|k: int| 1 <= k <= digits.len() && all_valid(digits@, k, base as int)
                    && #[trigger] hv(digits@, k, base as int) >= pow2(BITS as nat),
                Err(BaseConvertError::InvalidBase(_)) => false,
            }),
            // exactness: a valid string denoting a representable value is accepted
            base >= 2 && all_valid(digits@, digits.len() as int, base as int) && hv(digits@, digits.len() as int, base as int) < pow2(BITS as nat) ==> r is Ok,/*-*/
    {
        // OPT: Special handling of bases that divide 2^64, and bases that are
        // powers of 2.
        // OPT: Same trick as with `to_base_le`, find the largest power of base
        // that fits `u64` and accumulate there first.
        if base < 2 {
            return Err(BaseConvertError::InvalidBase(base));
        }

        let mut result = Self::ZERO();
        /*+*/let ghost n = LIMBS as int; let ghost bs = base as int; let ghost ds = digits@; let ghost len = digits.len() as int;
        let ghost m = pow2(BITS as nat) as int;
        proof { lemma_pow2_pos(BITS as nat); lemma_pow2_64(); }/*-*/
        for digit_ref in /*+*/it0:/*-*/ digits.iter()
            /*+*/invariant
                n == LIMBS, bs == base as int, bs >= 2, ds == digits@, len == digits.len(), m == pow2(BITS as nat) as int, m >= 1,
                Self::sized(), BITS <= usize::MAX - 63, B == 0x1_0000_0000_0000_0000,
                it0.seq().len() == len, forall|j: int| 0 <= j < len ==> *(#[trigger] it0.seq()[j]) == ds[j], 0 <= it0.index@ <= len,
                result.wf(), result.val() as int == hv(ds, it0.index@, bs), all_valid(ds, it0.index@, bs),/*-*/
        {
            let digit = *digit_ref;
            /*+*/let ghost i = it0.index@;
            let ghost old_limbs = result.limbs@;
            let ghost v0 = result.val() as int;
            proof { result.lemma_wf_lt(); assert(digit == ds[i]); lemma_lvr_is_lv(old_limbs, LIMBS as nat); }/*-*/
            if digit >= base {
                /*+*/proof { assert(ds[i] == digit); }/*-*/
                return Err(BaseConvertError::InvalidDigit(digit, base));
            }
            // Multiply by base.
            // OPT: keep track of non-zero limbs and mul the minimum.
            let mut carry: u128 = u128::from(digit);
            /*+*/let ghost mut done: Seq<u64> = Seq::empty();
            proof { assert(lvr(done, 0, 0) == 0); assert(lvr(old_limbs, 0, 0) == 0); assert(bp(0) == 1); assert(0 * bs == 0) by(nonlinear_arith); }/*-*/
            for limb in /*+*/it:/*-*/ result.limbs.iter_mut()
                /*+*/invariant
                    n == LIMBS, bs == base as int, bs >= 2, it.seq().len() == n, old_limbs.len() == n, 0 <= it.index@ <= n, B == 0x1_0000_0000_0000_0000,
                    forall|j: int| 0 <= j < n ==> *(#[trigger] it.seq()[j]) == old_limbs[j],
                    done.len() == it.index@,
                    forall|j: int| 0 <= j < it.index@ ==> *final(#[trigger] it.seq()[j]) == done[j],
                    (carry as int) < B,
                    lvr(done, 0, it.index@) + (carry as int) * bp(it.index@) == lvr(old_limbs, 0, it.index@) * bs + digit as int,/*-*/
            {
                /*+*/let ghost k = it.index@;
                let ghost c0 = carry as int; let ghost l = *limb as int;
                proof {
                    assert(c0 + l * bs <= (B - 1) + (B - 1) * (B - 1)) by(nonlinear_arith) requires 0 <= c0 <= B - 1, 0 <= l <= B - 1, 2 <= bs <= B - 1;
                    assert(l * bs >= 0) by(nonlinear_arith) requires l >= 0, bs >= 2;
                }/*-*/
                carry += u128::from(*limb) * u128::from(base);
                /*+*/let ghost x = carry;/*-*/
                *limb = #[verifier::truncate] (carry as u64);
                carry >>= 64;
                /*+*/proof {
                    let lo = #[verifier::truncate] (x as u64);
                    assert(lo as u128 == x % 0x1_0000_0000_0000_0000u128 && (x >> 64) == x / 0x1_0000_0000_0000_0000u128) by(bit_vector) requires lo == #[verifier::truncate] (x as u64);
                    let xi = x as int;
                    assert(xi == c0 + l * bs);
                    lemma_fundamental_div_mod(xi, B);
                    assert(xi / B < B) by(nonlinear_arith) requires xi == B * (xi / B) + xi % B, xi % B >= 0, xi <= (B - 1) + (B - 1) * (B - 1), B > 0;
                    let d2 = done.push(lo);
                    lemma_lvr_push(d2, 0, k); lemma_lvr_push(old_limbs, 0, k);
                    lemma_lvr_ext(d2, done, 0, k);
                    assert(bp(k + 1) == B * bp(k));
                    // lvr(d2,0,k+1) + carry'*bp(k+1) == lvr(done,0,k) + bp(k)*(lo + B*carry') == lvr(done,0,k) + bp(k)*(c0 + l*bs)
                    assert(lvr(done, 0, k) + bp(k) * (lo as int) + (xi / B) * (B * bp(k)) == (lvr(old_limbs, 0, k) + bp(k) * l) * bs + digit as int) by(nonlinear_arith)
                        requires lvr(done, 0, k) + c0 * bp(k) == lvr(old_limbs, 0, k) * bs + digit as int, xi == c0 + l * bs, xi == B * (xi / B) + lo as int;
                    done = d2;
                }/*-*/
            }
            /*+*/proof {
                assert(result.limbs@ =~= done);
                lemma_lvr_is_lv(result.limbs@, LIMBS as nat);
                // v0 * base + digit == lvr(new limbs) + carry * bp(n)
                assert(hv(ds, i + 1, bs) == v0 * bs + digit as int);
                lemma_bp_is_pow2(LIMBS as nat); lemma_bp_pos(n);
                let d = (64 * n - BITS) as nat;
                lemma_pow2_adds(BITS as nat, d); lemma_pow2_pos(d);
                if carry > 0 { assert((carry as int) * bp(n) >= m) by(nonlinear_arith) requires carry as int >= 1, bp(n) == m * pow2(d) as int, pow2(d) as int >= 1, m >= 1; lemma_lvr_bound(result.limbs@, 0, n); }
                else { assert(0 * bp(n) == 0) by(nonlinear_arith); }
                if BITS > 0 { result.lemma_wf_iff_lt(); } else { lemma2_to64(); }
                assert forall|j: int| 0 <= j < i + 1 implies (ds[j] as int) < bs by { if j == i { } }
                lemma_hv_mono(ds, i + 1, len, bs);
            }/*-*/
            if carry > 0 || (LIMBS != 0 && result.limbs[LIMBS - 1] > Self::MASK()) {
                return Err(BaseConvertError::Overflow);
            }
        }
        /*+*/proof {
            assert(all_valid(ds, len, bs));
        }/*-*/

        Ok(result)
    }
//@ end
//@ extract src/base_convert.rs fn from_base_le rewrite="from_base_le < I > (" => "from_base_le(" #1 rewrite="digits : I" => "digits: &[u64]" #1 rewrite="where I : IntoIterator < Item = u64 > ," => "" #1 rewrite="for digit in digits {" => "for digit_ref in digits.iter() { let digit = *digit_ref;" #1 rewrite="digits . into_iter ( )" => "digits.iter()" #1 rewrite="for digit in iter . by_ref ( ) {" => "while let Some(digit_ref) = iter.next() { let digit = *digit_ref;" #1 rewrite="for digit in iter {" => "while let Some(digit_ref) = iter.next() { let digit = *digit_ref;" #1
    pub fn from_base_le(base: u64, digits: &[u64]) -> /*+*/(r:/*-*/ Result<Self, BaseConvertError>/*+*/)
        requires Self::sized(), BITS <= usize::MAX - 63
        ensures
            base < 2 ==> r == Err::<Self, BaseConvertError>(BaseConvertError::InvalidBase(base)),
            // the digit string is scanned from the least significant end; the first invalid digit or the first prefix
            // whose value leaves [0, 2^BITS) decides the error
            base >= 2 ==> (match r {
                Ok(u) => u.wf() && all_valid(digits@, digits.len() as int, base as int) && u.val() as int == lev(digits@, digits.len() as int, base as int),
                Err(BaseConvertError::InvalidDigit(d, b)) => b == base && d >= base && (exists|i: int| 0 <= i < digits.len() && digits[i] == d
                    && all_valid(digits@, i, base as int) && #[trigger] lev(digits@, i, base as int) < pow2(BITS as nat)),
                Err(BaseConvertError::Overflow) => exists|k: int| 1 <= k <= digits.len() && all_valid(digits@, k, base as int)
                    && #[trigger] lev(digits@, k, base as int) >= pow2(BITS as nat),
                Err(BaseConvertError::InvalidBase(_)) => false,
            }),
            // exactness: a valid string denoting a representable value is accepted
            base >= 2 && all_valid(digits@, digits.len() as int, base as int) && lev(digits@, digits.len() as int, base as int) < pow2(BITS as nat) ==> r is Ok,/*-*/
    {
        if base < 2 {
            return Err(BaseConvertError::InvalidBase(base));
        }
        /*+*/let ghost n = LIMBS as int; let ghost bs = base as int; let ghost ds = digits@; let ghost len = digits.len() as int;
        let ghost m = pow2(BITS as nat) as int;
        proof { lemma_pow2_pos(BITS as nat); lemma_pow2_64(); }/*-*/
        if BITS == 0 {
            /*+*/proof { lemma2_to64(); }/*-*/
            for digit_ref in /*+*/it0:/*-*/ digits.iter()
                /*+*/invariant
                    bs == base as int, bs >= 2, ds == digits@, len == digits.len(), m == 1, BITS == 0,
                    it0.seq().len() == len, forall|j: int| 0 <= j < len ==> *(#[trigger] it0.seq()[j]) == ds[j], 0 <= it0.index@ <= len,
                    all_valid(ds, it0.index@, bs), forall|j: int| 0 <= j < it0.index@ ==> ds[j] == 0,/*-*/
            {
                let digit = *digit_ref;
                /*+*/let ghost i = it0.index@;
                proof { lemma2_to64(); assert(digit == ds[i]); lemma_lev_zeros(ds, 0, i, bs); assert(lev(ds, 0, bs) == 0); assert(lev(ds, i, bs) < pow2(BITS as nat)); }/*-*/
                if digit >= base {
                    return Err(BaseConvertError::InvalidDigit(digit, base));
                }
                if digit != 0 {
                    /*+*/proof {
                        lemma_bpw_mono(bs, i, i);
                        assert(ds[i] as int * bpw(bs, i) >= 1) by(nonlinear_arith) requires ds[i] as int >= 1, bpw(bs, i) >= 1;
                        assert(lev(ds, i + 1, bs) == lev(ds, i, bs) + ds[i] as int * bpw(bs, i));
                        assert forall|j: int| 0 <= j < i + 1 implies (ds[j] as int) < bs by { if j == i { } }
                        lemma_lev_mono(ds, i + 1, len, bs);
                        assert(all_valid(ds, i + 1, bs) && lev(ds, i + 1, bs) >= pow2(BITS as nat));
                    }/*-*/
                    return Err(BaseConvertError::Overflow);
                }
            }
            /*+*/proof { lemma_lev_zeros(ds, 0, len, bs); assert(lev(ds, 0, bs) == 0); }/*-*/
            return Ok(Self::ZERO());
        }

        let mut iter = digits.iter();
        let mut result = Self::ZERO();
        let mut power = Self::ONE();
        /*+*/let ghost mut k: int = 0;
        let ghost mut broke = false;
        proof { assert(lev(ds, 0, bs) == 0); assert(bpw(bs, 0) == 1); }/*-*/
        while let Some(digit_ref) = iter.next()
            /*+*/invariant_except_break
                power.wf(), power.val() as int == bpw(bs, k), !broke,
            invariant
                n == LIMBS, bs == base as int, bs >= 2, ds == digits@, len == digits.len(), m == pow2(BITS as nat) as int, m >= 1,
                Self::sized(), BITS <= usize::MAX - 63, BITS > 0, B == 0x1_0000_0000_0000_0000,
                0 <= k <= len, iter.remaining().len() == len - k,
                forall|j: int| 0 <= j < len - k ==> *(#[trigger] iter.remaining()[j]) == ds[k + j],
                result.wf(), result.val() as int == lev(ds, k, bs), all_valid(ds, k, bs),
            ensures
                broke ==> bpw(bs, k) >= m,
                !broke ==> k == len,
            decreases len - k/*-*/
        {
            let digit = *digit_ref;
            /*+*/let ghost i = k;
            let ghost r0 = result.limbs@; let ghost p0 = power.limbs@;
            proof {
                k = k + 1;
                assert(digit == ds[i]);
                result.lemma_wf_lt(); power.lemma_wf_lt();
                lemma_lvr_is_lv(r0, LIMBS as nat); lemma_lvr_is_lv(p0, LIMBS as nat);
            }/*-*/
            if digit >= base {
                return Err(BaseConvertError::InvalidDigit(digit, base));
            }

            // Add digit to result
            let overflow = addmul_nx1(&mut result.limbs, power.as_limbs(), digit);
            /*+*/proof {
                lemma_lvr_is_lv(result.limbs@, LIMBS as nat);
                lemma_bp_is_pow2(LIMBS as nat); lemma_bp_pos(n);
                let d = (64 * n - BITS) as nat;
                lemma_pow2_adds(BITS as nat, d); lemma_pow2_pos(d);
                assert(lev(ds, i + 1, bs) == lev(ds, i, bs) + ds[i] as int * bpw(bs, i));
                lemma_mul_is_commutative(ds[i] as int, bpw(bs, i));
                if overflow != 0 { assert((overflow as int) * bp(n) >= m) by(nonlinear_arith) requires overflow as int >= 1, bp(n) == m * pow2(d) as int, pow2(d) as int >= 1, m >= 1; lemma_lvr_bound(result.limbs@, 0, n); }
                else { assert(0 * bp(n) == 0) by(nonlinear_arith); }
                result.lemma_wf_iff_lt();
                assert forall|j: int| 0 <= j < i + 1 implies (ds[j] as int) < bs by { if j == i { } }
                lemma_lev_mono(ds, i + 1, len, bs);
            }/*-*/
            if overflow != 0 || result.limbs[LIMBS - 1] > Self::MASK() {
                return Err(BaseConvertError::Overflow);
            }

            // Update power
            let overflow = mul_nx1(&mut power.limbs, base);
            /*+*/proof {
                lemma_lvr_is_lv(power.limbs@, LIMBS as nat);
                let d = (64 * n - BITS) as nat;
                lemma_mul_is_commutative(bpw(bs, i), bs);
                if overflow != 0 { assert((overflow as int) * bp(n) >= m) by(nonlinear_arith) requires overflow as int >= 1, bp(n) == m * pow2(d) as int, pow2(d) as int >= 1, m >= 1; lemma_lvr_bound(power.limbs@, 0, n); }
                else { assert(0 * bp(n) == 0) by(nonlinear_arith); }
                power.lemma_wf_iff_lt();
            }/*-*/
            if overflow != 0 || power.limbs[LIMBS - 1] > Self::MASK() {
                // Following digits must be zero
                /*+*/proof { broke = true; }/*-*/
                break;
            }
        }
        /*+*/let ghost k0 = k;/*-*/
        while let Some(digit_ref) = iter.next()
            /*+*/invariant
                bs == base as int, bs >= 2, ds == digits@, len == digits.len(), m == pow2(BITS as nat) as int, m >= 1,
                0 <= k0 <= k <= len, iter.remaining().len() == len - k,
                forall|j: int| 0 <= j < len - k ==> *(#[trigger] iter.remaining()[j]) == ds[k + j],
                result.wf(), result.val() as int == lev(ds, k0, bs), all_valid(ds, k, bs),
                forall|j: int| k0 <= j < k ==> ds[j] == 0,
                k0 < len ==> bpw(bs, k0) >= m,
            ensures k == len
            decreases len - k/*-*/
        {
            let digit = *digit_ref;
            /*+*/let ghost i = k;
            proof {
                k = k + 1;
                assert(digit == ds[i]);
                result.lemma_wf_lt();
                lemma_lev_zeros(ds, k0, i, bs);
            }/*-*/
            if digit >= base {
                return Err(BaseConvertError::InvalidDigit(digit, base));
            }
            if digit != 0 {
                /*+*/proof {
                    lemma_bpw_mono(bs, k0, i);
                    assert(ds[i] as int * bpw(bs, i) >= m) by(nonlinear_arith) requires ds[i] as int >= 1, bpw(bs, i) >= bpw(bs, k0), bpw(bs, k0) >= m, bpw(bs, i) >= 1;
                    assert(lev(ds, i + 1, bs) == lev(ds, i, bs) + ds[i] as int * bpw(bs, i));
                    lemma_lev_mono(ds, 0, i, bs);
                    assert forall|j: int| 0 <= j < i + 1 implies (ds[j] as int) < bs by { if j == i { } }
                    lemma_lev_mono(ds, i + 1, len, bs);
                }/*-*/
                return Err(BaseConvertError::Overflow);
            }
        }
        /*+*/proof { lemma_lev_zeros(ds, k0, len, bs); }/*-*/
        Ok(result)
    }
//@ end
}

} // verus!
fn main() {}

// unit addmul_n: src/algorithms/mul.rs addmul_n and its unrolled kernels addmul_1..4  (C15, C02)
#![allow(non_snake_case)]
use vstd::prelude::*;
use vstd::arithmetic::power2::*;
use vstd::arithmetic::mul::*;
use vstd::arithmetic::div_mod::*;
use vstd::bits::*;
verus! {
//@ include lib/base.rs
//@ include lib/lvr.rs

//@ import kernels mac
//@ import addmul addmul

pub open spec fn total(old_s: Seq<u64>, a0: Seq<u64>, b0: Seq<u64>) -> int {
    lvr(old_s, 0, old_s.len() as int) + lvr(a0, 0, a0.len() as int) * lvr(b0, 0, b0.len() as int)
}

// X == B*(X/B) + X%B with the remainder in range
pub proof fn lemma_dm(x: int)
    requires x >= 0
    ensures x == B * (x / B) + x % B, 0 <= x % B < B, x / B >= 0
{
    lemma_fundamental_div_mod(x, B);
    lemma_mod_bound(x, B);
    lemma_div_pos_is_pos(x, B);
}

// final step shared by the unrolled kernels: t == r + k * m with 0 <= r < m  ==>  r == t % m
pub proof fn lemma_trunc(t: int, r: int, k: int, m: int)
    requires m > 0, 0 <= r < m, t == r + k * m
    ensures r == t % m
{
    lemma_mod_multiples_vanish(k, r, m);
    lemma_small_mod(r as nat, m as nat);
    assert(m * k == k * m) by(nonlinear_arith);
}


// ---- algebra of the unrolled kernels, Horner form (w stands for B) ----
pub proof fn lemma_horner(x: int, r: int, y: int, w: int) ensures (x + w * r) * y == x * y + w * (r * y) {
    assert((x + w * r) * y == x * y + w * (r * y)) by(nonlinear_arith);
}
pub proof fn lemma_dist(a: int, p: int, q: int, w: int) ensures a * (p + w * q) == a * p + w * (a * q) {
    assert(a * (p + w * q) == a * p + w * (a * q)) by(nonlinear_arith);
}
// product of two 3-limb numbers split into the part the kernel accumulates and the part beyond w^3
pub proof fn lemma_exp3(a0: int, a1: int, a2: int, b0: int, b1: int, b2: int, w: int)
    ensures (a0 + w * (a1 + w * a2)) * (b0 + w * (b1 + w * b2))
        == (a0 * b0 + w * (a0 * b1 + w * (a0 * b2))) + w * ((a1 * b0 + w * (a1 * b1)) + w * (a2 * b0)) + (w * w * w) * ((a1 * b2 + a2 * b1) + w * (a2 * b2))
{
    let y = b0 + w * (b1 + w * b2);
    lemma_horner(a0, a1 + w * a2, y, w);
    lemma_horner(a1, a2, y, w);
    lemma_dist(a0, b0, b1 + w * b2, w); lemma_dist(a0, b1, b2, w);
    lemma_dist(a1, b0, b1 + w * b2, w); lemma_dist(a1, b1, b2, w);
    lemma_dist(a2, b0, b1 + w * b2, w); lemma_dist(a2, b1, b2, w);
    let r0 = a0 * b0 + w * (a0 * b1 + w * (a0 * b2));
    let r1 = a1 * b0 + w * (a1 * b1 + w * (a1 * b2));
    let r2 = a2 * b0 + w * (a2 * b1 + w * (a2 * b2));
    assert(a0 * y == r0); assert(a1 * y == r1); assert(a2 * y == r2);
    assert((a0 + w * (a1 + w * a2)) * y == r0 + w * (r1 + w * r2));
    let p = a1 * b0 + w * (a1 * b1); let q = a1 * b2;
    let s = a2 * b0; let t = a2 * b1 + w * (a2 * b2);
    assert(r1 + w * r2 == (p + w * s) + (w * w) * (q + t)) by(nonlinear_arith)
        requires r1 == a1 * b0 + w * (a1 * b1 + w * q), p == a1 * b0 + w * (a1 * b1), r2 == s + w * t;
    assert(w * ((p + w * s) + (w * w) * (q + t)) == w * (p + w * s) + (w * w * w) * (q + t)) by(nonlinear_arith);
    assert(q + t == (a1 * b2 + a2 * b1) + w * (a2 * b2));
}
// the three rows of addmul_3 combined (linear in everything but w)
pub proof fn lemma_rows3(x0: int, y1: int, y2: int, z1: int, z2: int, w2: int, c00: int, c01: int, c02: int, c10: int, c11: int, c20: int,
                         l0: int, l1: int, l2: int, p00: int, p01: int, p02: int, p10: int, p11: int, p20: int, w: int)
    requires x0 + c00 * w == p00 + 0 + l0, y1 + c01 * w == p01 + c00 + l1, y2 + c02 * w == p02 + c01 + l2,
        z1 + c10 * w == p10 + 0 + y1, z2 + c11 * w == p11 + c10 + y2, w2 + c20 * w == p20 + 0 + z2,
    ensures (l0 + w * (l1 + w * l2)) + ((p00 + w * (p01 + w * p02)) + w * ((p10 + w * p11) + w * p20))
        == (x0 + w * (z1 + w * w2)) + (w * w * w) * (c02 + c11 + c20)
{
    assert((l0 + w * (l1 + w * l2)) + ((p00 + w * (p01 + w * p02)) + w * ((p10 + w * p11) + w * p20))
        == (x0 + w * (z1 + w * w2)) + (w * w * w) * (c02 + c11 + c20)) by(nonlinear_arith)
        requires x0 + c00 * w == p00 + 0 + l0, y1 + c01 * w == p01 + c00 + l1, y2 + c02 * w == p02 + c01 + l2,
            z1 + c10 * w == p10 + 0 + y1, z2 + c11 * w == p11 + c10 + y2, w2 + c20 * w == p20 + 0 + z2;
}
pub proof fn lemma_range3(x0: int, z1: int, w2: int, w: int)
    requires 0 <= x0 < w, 0 <= z1 < w, 0 <= w2 < w
    ensures 0 <= x0 + w * (z1 + w * w2) < w * w * w
{
    assert(0 <= x0 + w * (z1 + w * w2) < w * w * w) by(nonlinear_arith) requires 0 <= x0 < w, 0 <= z1 < w, 0 <= w2 < w;
}

//@ extract src/algorithms/mul.rs fn addmul_1
pub fn addmul_1(lhs: &mut [u64], a: &[u64], b: &[u64])
    /*+*/requires old(lhs).len() == 1, a.len() == 1, b.len() == 1
    ensures final(lhs).len() == 1,
        lvr(final(lhs)@, 0, 1) == total(old(lhs)@, a@, b@) % bp(1)/*-*/
{
    vassert (lhs.len() == 1 );
    vassert (a.len() == 1 );
    vassert (b.len() == 1 );
    /*+*/let ghost l0 = lhs@[0] as int; let ghost a0 = a@[0] as int; let ghost b0 = b@[0] as int;/*-*/
    mac(&mut lhs[0], a[0], b[0], 0);
    /*+*/proof {
        reveal_with_fuel(lvr, 3); reveal_with_fuel(bp, 3);
        assert(a0 * b0 >= 0) by(nonlinear_arith) requires a0 >= 0, b0 >= 0;
        let x = a0 * b0 + 0 + l0;
        lemma_dm(x);
        assert(total(old(lhs)@, a@, b@) == x);
        assert(bp(1) == B);
    }/*-*/
}
//@ end

//@ extract src/algorithms/mul.rs fn addmul_2
pub fn addmul_2(lhs: &mut [u64], a: &[u64], b: &[u64])
    /*+*/requires old(lhs).len() == 2, a.len() == 2, b.len() == 2
    ensures final(lhs).len() == 2,
        lvr(final(lhs)@, 0, 2) == total(old(lhs)@, a@, b@) % bp(2)/*-*/
{
    vassert (lhs.len() == 2 );
    vassert (a.len() == 2 );
    vassert (b.len() == 2 );
    /*+*/let ghost l0 = lhs@[0] as int; let ghost l1 = lhs@[1] as int;
    let ghost a0 = a@[0] as int; let ghost a1 = a@[1] as int; let ghost b0 = b@[0] as int; let ghost b1 = b@[1] as int;/*-*/
    let carry = mac(&mut lhs[0], a[0], b[0], 0);
    /*+*/let ghost x0 = lhs@[0] as int; let ghost c0 = carry as int;/*-*/
    mac(&mut lhs[1], a[0], b[1], carry);
    /*+*/let ghost y1 = lhs@[1] as int;/*-*/
    mac(&mut lhs[1], a[1], b[0], 0);
    /*+*/proof {
        reveal_with_fuel(lvr, 4); reveal_with_fuel(bp, 4);
        let z1 = lhs@[1] as int;
        assert(a0 * b1 >= 0 && a1 * b0 >= 0) by(nonlinear_arith) requires a0 >= 0, b0 >= 0, a1 >= 0, b1 >= 0;
        let x01 = a0 * b1 + c0 + l1; lemma_dm(x01); let c1 = x01 / B;
        let x10 = a1 * b0 + 0 + y1; lemma_dm(x10); let c2 = x10 / B;
        let t = (l0 + B * l1) + (a0 + B * a1) * (b0 + B * b1);
        assert(t == (x0 + B * z1) + (c1 + c2 + a1 * b1) * (B * B)) by(nonlinear_arith)
            requires x0 + c0 * B == a0 * b0 + 0 + l0, x01 == B * c1 + y1, x01 == a0 * b1 + c0 + l1, x10 == B * c2 + z1, x10 == a1 * b0 + 0 + y1,
                     t == (l0 + B * l1) + (a0 + B * a1) * (b0 + B * b1);
        assert(0 <= x0 + B * z1 < B * B) by(nonlinear_arith) requires 0 <= x0 < B, 0 <= z1 < B;
        assert(total(old(lhs)@, a@, b@) == t);
        assert(bp(2) == B * B);
        lemma_trunc(t, x0 + B * z1, c1 + c2 + a1 * b1, B * B);
    }/*-*/
}
//@ end

//@ extract src/algorithms/mul.rs fn addmul_3
pub fn addmul_3(lhs: &mut [u64], a: &[u64], b: &[u64])
    /*+*/requires old(lhs).len() == 3, a.len() == 3, b.len() == 3
    ensures final(lhs).len() == 3,
        lvr(final(lhs)@, 0, 3) == total(old(lhs)@, a@, b@) % bp(3)/*-*/
{
    vassert (lhs.len() == 3 );
    vassert (a.len() == 3 );
    vassert (b.len() == 3 );
    /*+*/let ghost l0 = lhs@[0] as int; let ghost l1 = lhs@[1] as int; let ghost l2 = lhs@[2] as int;
    let ghost a0 = a@[0] as int; let ghost a1 = a@[1] as int; let ghost a2 = a@[2] as int;
    let ghost b0 = b@[0] as int; let ghost b1 = b@[1] as int; let ghost b2 = b@[2] as int;/*-*/
    let carry = mac(&mut lhs[0], a[0], b[0], 0);
    /*+*/let ghost x0 = lhs@[0] as int; let ghost c00 = carry as int;/*-*/
    let carry = mac(&mut lhs[1], a[0], b[1], carry);
    /*+*/let ghost y1 = lhs@[1] as int; let ghost c01 = carry as int;/*-*/
    mac(&mut lhs[2], a[0], b[2], carry);
    /*+*/let ghost y2 = lhs@[2] as int;/*-*/
    let carry = mac(&mut lhs[1], a[1], b[0], 0);
    /*+*/let ghost z1 = lhs@[1] as int; let ghost c10 = carry as int;/*-*/
    mac(&mut lhs[2], a[1], b[1], carry);
    /*+*/let ghost z2 = lhs@[2] as int;/*-*/
    mac(&mut lhs[2], a[2], b[0], 0);
    /*+*/proof {
        reveal_with_fuel(lvr, 5); reveal_with_fuel(bp, 5);
        let w2 = lhs@[2] as int;
        assert(a0 * b2 >= 0 && a1 * b1 >= 0 && a2 * b0 >= 0) by(nonlinear_arith) requires a0 >= 0, b0 >= 0, a1 >= 0, b1 >= 0, a2 >= 0, b2 >= 0;
        let x02 = a0 * b2 + c01 + l2; lemma_dm(x02); let c02 = x02 / B;
        let x11 = a1 * b1 + c10 + y2; lemma_dm(x11); let c11 = x11 / B;
        let x20 = a2 * b0 + 0 + z2; lemma_dm(x20); let c20 = x20 / B;
        lemma_rows3(x0, y1, y2, z1, z2, w2, c00, c01, c02, c10, c11, c20, l0, l1, l2, a0 * b0, a0 * b1, a0 * b2, a1 * b0, a1 * b1, a2 * b0, B);
        lemma_exp3(a0, a1, a2, b0, b1, b2, B);
        lemma_range3(x0, z1, w2, B);
        let k = (c02 + c11 + c20) + ((a1 * b2 + a2 * b1) + B * (a2 * b2));
        let f = x0 + B * (z1 + B * w2);
        let t = total(old(lhs)@, a@, b@);
        assert(t == (l0 + B * (l1 + B * (l2 + B * 0))) + (a0 + B * (a1 + B * (a2 + B * 0))) * (b0 + B * (b1 + B * (b2 + B * 0))));
        assert(B * 0 == 0);
        let m = B * B * B;
        assert(t == f + k * m) by(nonlinear_arith)
            requires t == (l0 + B * (l1 + B * l2)) + (a0 + B * (a1 + B * a2)) * (b0 + B * (b1 + B * b2)),
                (a0 + B * (a1 + B * a2)) * (b0 + B * (b1 + B * b2))
                    == (a0 * b0 + B * (a0 * b1 + B * (a0 * b2))) + B * ((a1 * b0 + B * (a1 * b1)) + B * (a2 * b0)) + (B * B * B) * ((a1 * b2 + a2 * b1) + B * (a2 * b2)),
                (l0 + B * (l1 + B * l2)) + ((a0 * b0 + B * (a0 * b1 + B * (a0 * b2))) + B * ((a1 * b0 + B * (a1 * b1)) + B * (a2 * b0)))
                    == f + (B * B * B) * (c02 + c11 + c20),
                k == (c02 + c11 + c20) + ((a1 * b2 + a2 * b1) + B * (a2 * b2)), m == B * B * B;
        assert(bp(3) == m) by(nonlinear_arith) requires bp(3) == B * (B * (B * 1)), m == B * B * B;
        assert(lvr(lhs@, 0, 3) == f);
        lemma_trunc(t, f, k, m);
    }/*-*/
}
//@ end

pub proof fn lemma_row4(a: int, b0: int, b1: int, b2: int, b3: int, w: int)
    ensures a * (b0 + w * (b1 + w * (b2 + w * b3))) == a * b0 + w * (a * b1 + w * (a * b2 + w * (a * b3)))
{
    lemma_dist(a, b0, b1 + w * (b2 + w * b3), w); lemma_dist(a, b1, b2 + w * b3, w); lemma_dist(a, b2, b3, w);
}
// product of two 4-limb numbers split into the part the kernel accumulates and the part beyond w^4
pub proof fn lemma_exp4(a0: int, a1: int, a2: int, a3: int, b0: int, b1: int, b2: int, b3: int, w: int)
    ensures (a0 + w * (a1 + w * (a2 + w * a3))) * (b0 + w * (b1 + w * (b2 + w * b3)))
        == (a0 * b0 + w * (a0 * b1 + w * (a0 * b2 + w * (a0 * b3))))
           + w * ((a1 * b0 + w * (a1 * b1 + w * (a1 * b2))) + w * ((a2 * b0 + w * (a2 * b1)) + w * (a3 * b0)))
           + (w * w * w * w) * (a1 * b3 + (a2 * b2 + w * (a2 * b3)) + (a3 * b1 + w * (a3 * b2 + w * (a3 * b3))))
{
    let y = b0 + w * (b1 + w * (b2 + w * b3));
    lemma_horner(a0, a1 + w * (a2 + w * a3), y, w);
    lemma_horner(a1, a2 + w * a3, y, w);
    lemma_horner(a2, a3, y, w);
    lemma_row4(a0, b0, b1, b2, b3, w); lemma_row4(a1, b0, b1, b2, b3, w); lemma_row4(a2, b0, b1, b2, b3, w); lemma_row4(a3, b0, b1, b2, b3, w);
    let r0 = a0 * b0 + w * (a0 * b1 + w * (a0 * b2 + w * (a0 * b3)));
    let r1 = a1 * b0 + w * (a1 * b1 + w * (a1 * b2 + w * (a1 * b3)));
    let r2 = a2 * b0 + w * (a2 * b1 + w * (a2 * b2 + w * (a2 * b3)));
    let r3 = a3 * b0 + w * (a3 * b1 + w * (a3 * b2 + w * (a3 * b3)));
    assert((a0 + w * (a1 + w * (a2 + w * a3))) * y == r0 + w * (r1 + w * (r2 + w * r3)));
    let k1 = a1 * b0 + w * (a1 * b1 + w * (a1 * b2)); let d1 = a1 * b3;                         // r1 = k1 + www d1
    let k2 = a2 * b0 + w * (a2 * b1); let d2 = a2 * b2 + w * (a2 * b3);                           // r2 = k2 + ww d2
    let k3 = a3 * b0; let d3 = a3 * b1 + w * (a3 * b2 + w * (a3 * b3));                           // r3 = k3 + w d3
    assert(r1 == k1 + (w * w * w) * d1) by(nonlinear_arith) requires r1 == a1 * b0 + w * (a1 * b1 + w * (a1 * b2 + w * d1)), k1 == a1 * b0 + w * (a1 * b1 + w * (a1 * b2));
    assert(r2 == k2 + (w * w) * d2) by(nonlinear_arith) requires r2 == a2 * b0 + w * (a2 * b1 + w * d2), k2 == a2 * b0 + w * (a2 * b1);
    assert(r3 == k3 + w * d3);
    assert(r1 + w * (r2 + w * r3) == (k1 + w * (k2 + w * k3)) + (w * w * w) * (d1 + d2 + d3)) by(nonlinear_arith)
        requires r1 == k1 + (w * w * w) * d1, r2 == k2 + (w * w) * d2, r3 == k3 + w * d3;
    assert(w * ((k1 + w * (k2 + w * k3)) + (w * w * w) * (d1 + d2 + d3)) == w * (k1 + w * (k2 + w * k3)) + (w * w * w * w) * (d1 + d2 + d3)) by(nonlinear_arith);
}
pub proof fn lemma_rows4(x0: int, y1: int, y2: int, y3: int, z1: int, z2: int, z3: int, u2: int, u3: int, v3: int,
                         c00: int, c01: int, c02: int, c03: int, c10: int, c11: int, c12: int, c20: int, c21: int, c30: int,
                         l0: int, l1: int, l2: int, l3: int,
                         p00: int, p01: int, p02: int, p03: int, p10: int, p11: int, p12: int, p20: int, p21: int, p30: int, w: int)
    requires x0 + c00 * w == p00 + 0 + l0, y1 + c01 * w == p01 + c00 + l1, y2 + c02 * w == p02 + c01 + l2, y3 + c03 * w == p03 + c02 + l3,
        z1 + c10 * w == p10 + 0 + y1, z2 + c11 * w == p11 + c10 + y2, z3 + c12 * w == p12 + c11 + y3,
        u2 + c20 * w == p20 + 0 + z2, u3 + c21 * w == p21 + c20 + z3,
        v3 + c30 * w == p30 + 0 + u3,
    ensures (l0 + w * (l1 + w * (l2 + w * l3)))
            + ((p00 + w * (p01 + w * (p02 + w * p03))) + w * ((p10 + w * (p11 + w * p12)) + w * ((p20 + w * p21) + w * p30)))
        == (x0 + w * (z1 + w * (u2 + w * v3))) + (w * w * w * w) * (c03 + c12 + c21 + c30)
{
    // row by row
    let s0 = l0 + w * (l1 + w * (l2 + w * l3));
    let s1 = x0 + w * (y1 + w * (y2 + w * y3));
    assert(s1 + (w * w * w * w) * c03 == s0 + (p00 + w * (p01 + w * (p02 + w * p03)))) by(nonlinear_arith)
        requires x0 + c00 * w == p00 + 0 + l0, y1 + c01 * w == p01 + c00 + l1, y2 + c02 * w == p02 + c01 + l2, y3 + c03 * w == p03 + c02 + l3,
            s0 == l0 + w * (l1 + w * (l2 + w * l3)), s1 == x0 + w * (y1 + w * (y2 + w * y3));
    let t1 = y1 + w * (y2 + w * y3);
    let t2 = z1 + w * (z2 + w * z3);
    assert(t2 + (w * w * w) * c12 == t1 + (p10 + w * (p11 + w * p12))) by(nonlinear_arith)
        requires z1 + c10 * w == p10 + 0 + y1, z2 + c11 * w == p11 + c10 + y2, z3 + c12 * w == p12 + c11 + y3,
            t1 == y1 + w * (y2 + w * y3), t2 == z1 + w * (z2 + w * z3);
    let q1 = z2 + w * z3;
    let q2 = u2 + w * u3;
    assert(q2 + (w * w) * c21 == q1 + (p20 + w * p21)) by(nonlinear_arith)
        requires u2 + c20 * w == p20 + 0 + z2, u3 + c21 * w == p21 + c20 + z3, q1 == z2 + w * z3, q2 == u2 + w * u3;
    // assemble
    assert(s0 + ((p00 + w * (p01 + w * (p02 + w * p03))) + w * ((p10 + w * (p11 + w * p12)) + w * ((p20 + w * p21) + w * p30)))
        == (x0 + w * (z1 + w * (u2 + w * v3))) + (w * w * w * w) * (c03 + c12 + c21 + c30)) by(nonlinear_arith)
        requires s1 + (w * w * w * w) * c03 == s0 + (p00 + w * (p01 + w * (p02 + w * p03))), s1 == x0 + w * t1,
            t2 + (w * w * w) * c12 == t1 + (p10 + w * (p11 + w * p12)), t2 == z1 + w * q1,
            q2 + (w * w) * c21 == q1 + (p20 + w * p21), q2 == u2 + w * u3,
            v3 + c30 * w == p30 + 0 + u3;
}
pub proof fn lemma_range4(x0: int, z1: int, u2: int, v3: int, w: int)
    requires 0 <= x0 < w, 0 <= z1 < w, 0 <= u2 < w, 0 <= v3 < w
    ensures 0 <= x0 + w * (z1 + w * (u2 + w * v3)) < w * w * w * w
{
    lemma_range3(z1, u2, v3, w);
    let r = z1 + w * (u2 + w * v3);
    assert(0 <= x0 + w * r < w * w * w * w) by(nonlinear_arith) requires 0 <= x0 < w, 0 <= r < w * w * w;
}

//@ extract src/algorithms/mul.rs fn addmul_4
pub fn addmul_4(lhs: &mut [u64], a: &[u64], b: &[u64])
    /*+*/requires old(lhs).len() == 4, a.len() == 4, b.len() == 4
    ensures final(lhs).len() == 4,
        lvr(final(lhs)@, 0, 4) == total(old(lhs)@, a@, b@) % bp(4)/*-*/
{
    vassert (lhs.len() == 4 );
    vassert (a.len() == 4 );
    vassert (b.len() == 4 );
    /*+*/let ghost l0 = lhs@[0] as int; let ghost l1 = lhs@[1] as int; let ghost l2 = lhs@[2] as int; let ghost l3 = lhs@[3] as int;
    let ghost a0 = a@[0] as int; let ghost a1 = a@[1] as int; let ghost a2 = a@[2] as int; let ghost a3 = a@[3] as int;
    let ghost b0 = b@[0] as int; let ghost b1 = b@[1] as int; let ghost b2 = b@[2] as int; let ghost b3 = b@[3] as int;/*-*/
    let carry = mac(&mut lhs[0], a[0], b[0], 0);
    /*+*/let ghost x0 = lhs@[0] as int; let ghost c00 = carry as int;/*-*/
    let carry = mac(&mut lhs[1], a[0], b[1], carry);
    /*+*/let ghost y1 = lhs@[1] as int; let ghost c01 = carry as int;/*-*/
    let carry = mac(&mut lhs[2], a[0], b[2], carry);
    /*+*/let ghost y2 = lhs@[2] as int; let ghost c02 = carry as int;/*-*/
    mac(&mut lhs[3], a[0], b[3], carry);
    /*+*/let ghost y3 = lhs@[3] as int;/*-*/
    let carry = mac(&mut lhs[1], a[1], b[0], 0);
    /*+*/let ghost z1 = lhs@[1] as int; let ghost c10 = carry as int;/*-*/
    let carry = mac(&mut lhs[2], a[1], b[1], carry);
    /*+*/let ghost z2 = lhs@[2] as int; let ghost c11 = carry as int;/*-*/
    mac(&mut lhs[3], a[1], b[2], carry);
    /*+*/let ghost z3 = lhs@[3] as int;/*-*/
    let carry = mac(&mut lhs[2], a[2], b[0], 0);
    /*+*/let ghost u2 = lhs@[2] as int; let ghost c20 = carry as int;/*-*/
    mac(&mut lhs[3], a[2], b[1], carry);
    /*+*/let ghost u3 = lhs@[3] as int;/*-*/
    mac(&mut lhs[3], a[3], b[0], 0);
    /*+*/proof {
        reveal_with_fuel(lvr, 6); reveal_with_fuel(bp, 6);
        let v3 = lhs@[3] as int;
        assert(a0 * b3 >= 0 && a1 * b2 >= 0 && a2 * b1 >= 0 && a3 * b0 >= 0) by(nonlinear_arith)
            requires a0 >= 0, b0 >= 0, a1 >= 0, b1 >= 0, a2 >= 0, b2 >= 0, a3 >= 0, b3 >= 0;
        let x03 = a0 * b3 + c02 + l3; lemma_dm(x03); let c03 = x03 / B;
        let x12 = a1 * b2 + c11 + y3; lemma_dm(x12); let c12 = x12 / B;
        let x21 = a2 * b1 + c20 + z3; lemma_dm(x21); let c21 = x21 / B;
        let x30 = a3 * b0 + 0 + u3; lemma_dm(x30); let c30 = x30 / B;
        lemma_rows4(x0, y1, y2, y3, z1, z2, z3, u2, u3, v3, c00, c01, c02, c03, c10, c11, c12, c20, c21, c30, l0, l1, l2, l3,
                    a0 * b0, a0 * b1, a0 * b2, a0 * b3, a1 * b0, a1 * b1, a1 * b2, a2 * b0, a2 * b1, a3 * b0, B);
        lemma_exp4(a0, a1, a2, a3, b0, b1, b2, b3, B);
        lemma_range4(x0, z1, u2, v3, B);
        let d = a1 * b3 + (a2 * b2 + B * (a2 * b3)) + (a3 * b1 + B * (a3 * b2 + B * (a3 * b3)));
        let k = (c03 + c12 + c21 + c30) + d;
        let f = x0 + B * (z1 + B * (u2 + B * v3));
        let t = total(old(lhs)@, a@, b@);
        assert(B * 0 == 0);
        assert(t == (l0 + B * (l1 + B * (l2 + B * l3))) + (a0 + B * (a1 + B * (a2 + B * a3))) * (b0 + B * (b1 + B * (b2 + B * b3))));
        let m = B * B * B * B;
        let kept = (a0 * b0 + B * (a0 * b1 + B * (a0 * b2 + B * (a0 * b3))))
           + B * ((a1 * b0 + B * (a1 * b1 + B * (a1 * b2))) + B * ((a2 * b0 + B * (a2 * b1)) + B * (a3 * b0)));
        assert(t == f + k * m) by(nonlinear_arith)
            requires t == (l0 + B * (l1 + B * (l2 + B * l3))) + (kept + m * d),
                (l0 + B * (l1 + B * (l2 + B * l3))) + kept == f + m * (c03 + c12 + c21 + c30),
                k == (c03 + c12 + c21 + c30) + d;
        assert(bp(4) == m) by(nonlinear_arith) requires bp(4) == B * (B * (B * (B * 1))), m == B * B * B * B;
        assert(lvr(lhs@, 0, 4) == f);
        lemma_trunc(t, f, k, m);
    }/*-*/
}
//@ end

//@ extract src/algorithms/mul.rs fn addmul_n rewrite="_ => _ = addmul ( lhs , a , b ) ," => "_ => { let _ = addmul ( lhs , a , b ) ; }" #1
pub fn addmul_n(lhs: &mut [u64], a: &[u64], b: &[u64])
    /*+*/requires old(lhs).len() == a.len(), old(lhs).len() == b.len()
    ensures final(lhs).len() == old(lhs).len(),
        lvr(final(lhs)@, 0, old(lhs).len() as int) == total(old(lhs)@, a@, b@) % bp(old(lhs).len() as int)/*-*/
{
    vassert ( (lhs.len() ) == ( a.len() ) );
    vassert ( (lhs.len() ) == ( b.len() ) );
    /*+*/proof { if lhs.len() == 0 { reveal_with_fuel(lvr, 2); assert(bp(0) == 1); assert(total(lhs@, a@, b@) == 0) by(nonlinear_arith) requires total(lhs@, a@, b@) == 0 + 0 * 0; } }/*-*/
    match lhs.len() {
        0 => {}
        1 => addmul_1(lhs, a, b),
        2 => addmul_2(lhs, a, b),
        3 => addmul_3(lhs, a, b),
        4 => addmul_4(lhs, a, b),
        _ => { let _ = addmul ( lhs , a , b ) ; }
    }
}
//@ end

} // verus!
fn main() {}

// unit shifts: src/bits.rs — overflowing_shl / overflowing_shr and their checked / saturating / wrapping forms  (C05)
#![allow(non_snake_case)]
use vstd::prelude::*;
use vstd::arithmetic::power::*;
use vstd::arithmetic::power2::*;
use vstd::arithmetic::mul::*;
use vstd::arithmetic::div_mod::*;
use vstd::bits::*;
use vstd::std_specs::bits::*;
use vstd::std_specs::cmp::*;
use vstd::std_specs::ops::*;
verus! {
// target assumption (stated in every evidence file): 64-bit usize, so `limb as usize` is lossless
global size_of usize == 8;
//@ include lib/base.rs
//@ include lib/lvr.rs
//@ include lib/shift.rs

//@ extract src/lib.rs struct Uint
pub struct Uint<const BITS: usize, const LIMBS: usize> { pub
    limbs: [u64; LIMBS],
}
//@ end

//@ include lib/uint_spec.rs
//@ include lib/uint_ops.rs

// one word of a left shift by b < 64 bits: y is the previous (lower) word, whose top b bits come in as the carry
pub proof fn lemma_shl_word(x: u64, y: u64, b: usize)
    requires b < 64
    ensures
        ((x << b) | ((y >> (63 - b) as usize) >> 1usize)) as int + (((x >> (63 - b) as usize) >> 1usize) as int) * B
            == (x as int) * pow2(b as nat) + (((y >> (63 - b) as usize) >> 1usize) as int),
        0 <= (((y >> (63 - b) as usize) >> 1usize) as int) < pow2(b as nat),
{
    lemma2_to64();
    lemma_pow2_64();
    let cy = (y >> (63 - b) as usize) >> 1usize;
    let cx = (x >> (63 - b) as usize) >> 1usize;
    if b == 0 {
        assert((y >> 63usize) >> 1usize == 0) by(bit_vector);
        assert((x >> 63usize) >> 1usize == 0) by(bit_vector);
        assert((x << 0usize) | 0u64 == x) by(bit_vector);
        assert((x as int) * 1 == x as int) by(nonlinear_arith);
    } else {
        let s: u32 = b as u32;
        let c: u32 = (64 - b) as u32;
        assert(cy == y >> c) by(bit_vector) requires cy == (y >> (63 - b) as usize) >> 1usize, c == 64 - b, 0 < b < 64;
        assert(cx == x >> c) by(bit_vector) requires cx == (x >> (63 - b) as usize) >> 1usize, c == 64 - b, 0 < b < 64;
        assert(x << b == x << s) by(bit_vector) requires s == b, b < 64;
        lemma_shl_or_shr_u64(x, y, s);
        // (x << s) | (y >> c) == (x % 2^c) * 2^s + y / 2^c
        lemma_u64_shr_is_div(x, c as u64);
        lemma_u64_shr_is_div(y, c as u64);
        let pc = pow2(c as nat) as int; let ps = pow2(s as nat) as int;
        lemma_pow2_pos(c as nat);
        lemma_pow2_adds(c as nat, s as nat);
        lemma_fundamental_div_mod(x as int, pc);
        let q = (x as int) / pc; let r = (x as int) % pc;
        assert(r * ps + q * B == (x as int) * ps) by(nonlinear_arith)
            requires x as int == pc * q + r, pc * ps == B;
    }
}

// one word of a right shift by b < 64 bits: y is the previous (higher) word, whose low b bits come in as the carry
pub proof fn lemma_shr_word(x: u64, y: u64, b: usize)
    requires b < 64
    ensures
        ((x >> b) | ((y << (63 - b) as usize) << 1usize)) as int
            == (x as int) / (pow2(b as nat) as int) + ((y as int) % (pow2(b as nat) as int)) * pow2((64 - b) as nat),
        ((y << (63 - b) as usize) << 1usize) as int == ((y as int) % (pow2(b as nat) as int)) * pow2((64 - b) as nat),
{
    lemma2_to64();
    lemma_pow2_64();
    let cy = (y << (63 - b) as usize) << 1usize;
    if b == 0 {
        assert((y << 63usize) << 1usize == 0) by(bit_vector);
        assert((x >> 0usize) | 0u64 == x) by(bit_vector);
        assert((y as int) % 1 == 0);
        assert(0 * pow2(64) == 0) by(nonlinear_arith);
        assert(cy == 0);
        assert((x >> b) | cy == x);
        assert((x as int) / 1 == x as int);
    } else {
        let s: u32 = (64 - b) as u32;   // left-shift amount of y
        let c: u32 = b as u32;
        assert(cy == y << s) by(bit_vector) requires cy == (y << (63 - b) as usize) << 1usize, s == 64 - b, 0 < b < 64;
        assert(x >> b == x >> c) by(bit_vector) requires c == b, b < 64;
        assert((x >> c) | (y << s) == (y << s) | (x >> c)) by(bit_vector);
        assert(c == 64 - s);
        lemma_shl_or_shr_u64(y, x, s);
        lemma_shl_or_shr_u64(y, 0, s);
        assert((y << s) | (0u64 >> c) == y << s) by(bit_vector) requires c < 64;
        lemma_pow2_pos(c as nat);
        assert(0int / (pow2(c as nat) as int) == 0) by { lemma_div_basics(pow2(c as nat) as int); }
        assert((x >> b) | cy == (y << s) | (x >> c));
        assert(((y << s) | (x >> ((64 - s) as u32))) as int == ((y as int) % (pow2((64 - s) as nat) as int)) * pow2(s as nat) + (x as int) / (pow2((64 - s) as nat) as int));
        assert(pow2((64 - s) as nat) == pow2(b as nat));
        assert(pow2(s as nat) == pow2((64 - b) as nat));
    }
}

// a non-zero limb makes the range value positive
pub proof fn lemma_lvr_nonzero(s: Seq<u64>, lo: int, hi: int, j: int)
    requires 0 <= lo <= j < hi <= s.len(), s[j] != 0
    ensures lvr(s, lo, hi) >= 1
{
    lemma_lvr_split(s, lo, j, hi);
    lemma_lvr_bound(s, lo, j);
    lemma_lvr_bound(s, j + 1, hi);
    lemma_bp_pos(j - lo);
    let t = lvr(s, j + 1, hi);
    assert(lvr(s, j, hi) == s[j] as int + B * t);
    assert(s[j] as int + B * t >= 1) by(nonlinear_arith) requires s[j] as int >= 1, t >= 0;
    assert(bp(j - lo) * lvr(s, j, hi) >= 1) by(nonlinear_arith) requires bp(j - lo) >= 1, lvr(s, j, hi) >= 1;
}

// the ring identity behind a left shift by L limbs and b bits (monomial rearrangements only: one large nonlinear query took 76 s)
pub proof fn lemma_shl_algebra(a0: int, h: int, bk: int, bl: int, pb: int, r1: int, carry: int)
    requires r1 + bk * carry == a0 * pb
    ensures (a0 + bk * h) * (bl * pb) == bl * r1 + (bk * bl) * (carry + h * pb)
{
    lemma_mul_is_distributive_add_other_way(bl * pb, a0, bk * h);
    assert(a0 * (bl * pb) == bl * (a0 * pb)) by(nonlinear_arith);
    lemma_mul_is_distributive_add(bl, r1, bk * carry);
    lemma_mul_is_distributive_add(bk * bl, carry, h * pb);
    assert(bl * (bk * carry) == (bk * bl) * carry) by(nonlinear_arith);
    assert((bk * h) * (bl * pb) == (bk * bl) * (h * pb)) by(nonlinear_arith);
}

// N14-style wrapper: `limbs[1..].iter().any(|&limb| limb != 0)` is routed through this function whose body IS that expression.
// ASSUMED (label A, std's Iterator::any on a sub-slice): some limb above the first is non-zero. Kani: core_specs (lengths <= 6).
#[verifier::external_body]
pub fn any_nonzero_above_first<const N: usize>(limbs: &[u64; N]) -> (r: bool)
    requires N >= 1
    ensures r == (exists|j: int| 1 <= j < N && limbs[j] != 0)
{ limbs[1..].iter().any(|&limb| limb != 0) }

impl<const BITS: usize, const LIMBS: usize> Uint<BITS, LIMBS> {
//@ import core LIMBS
//@ import core MASK
//@ import core ZERO
//@ import core MAX
//@ import core apply_mask
//@ import core as_limbs

    // the value left-shifted by whole limbs plus b bits, from the limb-level facts the loops establish
    pub proof fn lemma_shl_result(a: Self, r: Self, L: int, b: nat, carry: int, hi_nz: bool)
        requires a.wf(), Self::sized(), BITS > 0, 0 <= L < LIMBS, b < 64, 0 <= carry < pow2(b),
            forall|j: int| 0 <= j < L ==> r.limbs[j] == 0,
            lvr(r.limbs@, L, LIMBS as int) + bp(LIMBS - L) * carry == lvr(a.limbs@, 0, LIMBS - L) * pow2(b),
            hi_nz == (exists|j: int| LIMBS - L <= j < LIMBS && a.limbs[j] != 0),
        ensures
            r.val() % pow2(BITS as nat) == (a.val() * pow2((64 * L + b) as nat)) % pow2(BITS as nat),
            (carry != 0 || hi_nz || r.limbs[LIMBS - 1] > spec_mask(BITS)) == (a.val() * pow2((64 * L + b) as nat) >= pow2(BITS as nat)),
    {
        let n = LIMBS as int; let k = n - L;
        let pb = pow2(b) as int;
        let m = pow2(BITS as nat) as int;
        let sh = pow2((64 * L + b) as nat) as int;
        let H = lvr(a.limbs@, k, n);
        let A0 = lvr(a.limbs@, 0, k);
        let R1 = lvr(r.limbs@, L, n);
        let Rf = r.val() as int;
        lemma_lvr_is_lv(a.limbs@, LIMBS as nat);
        lemma_lvr_is_lv(r.limbs@, LIMBS as nat);
        lemma_lvr_split(a.limbs@, 0, k, n);
        lemma_lvr_leading_zeros(r.limbs@, 0, L, n);
        lemma_lvr_bound(r.limbs@, 0, n);
        lemma_lvr_bound(a.limbs@, k, n);
        lemma_bp_is_pow2(L as nat); lemma_bp_is_pow2(n as nat); lemma_bp_is_pow2(k as nat);
        lemma_bp_add(k, L);
        lemma_pow2_adds((64 * L) as nat, b);
        lemma_pow2_pos(b); lemma_pow2_pos(BITS as nat);
        assert(sh == bp(L) * pb);
        assert(Rf == bp(L) * R1);
        assert(a.val() as int == A0 + bp(k) * H);
        let T = carry + H * pb;
        assert(T >= 0) by(nonlinear_arith) requires T == carry + H * pb, carry >= 0, H >= 0, pb > 0;
        lemma_shl_algebra(A0, H, bp(k), bp(L), pb, R1, carry);
        assert((a.val() as int) * sh == Rf + bp(n) * T);
        // bp(n) is a multiple of 2^BITS
        let d = (64 * n - BITS) as nat;
        lemma_pow2_adds(BITS as nat, d);
        lemma_pow2_pos(d);
        let pd = pow2(d) as int;
        assert(bp(n) == m * pd);
        assert(bp(n) * T == m * (pd * T)) by(nonlinear_arith) requires bp(n) == m * pd;
        lemma_mod_multiples_vanish(pd * T, Rf, m);
        assert((Rf + m * (pd * T)) % m == Rf % m) by { assert(m * (pd * T) + Rf == Rf + m * (pd * T)); }
        // the flag
        r.lemma_wf_iff_lt();
        if hi_nz {
            let j = choose|j: int| LIMBS - L <= j < LIMBS && a.limbs[j] != 0;
            lemma_lvr_nonzero(a.limbs@, k, n, j);
            assert(H * pb >= 1) by(nonlinear_arith) requires H >= 1, pb >= 1;
        } else {
            lemma_lvr_zero(a.limbs@, k, n);
            assert(0 * pb == 0) by(nonlinear_arith);
        }
        if T >= 1 {
            assert(bp(n) * T >= m) by(nonlinear_arith) requires bp(n) == m * pd, pd >= 1, T >= 1, m >= 1;
        } else {
            assert(bp(n) * 0 == 0) by(nonlinear_arith);
        }
    }

    // the value right-shifted by whole limbs plus b bits
    pub proof fn lemma_shr_result(a: Self, r: Self, L: int, b: nat, cq: int, lo_nz: bool)
        requires a.wf(), Self::sized(), BITS > 0, 0 <= L < LIMBS, b < 64, 0 <= cq < pow2(b),
            forall|j: int| LIMBS - L <= j < LIMBS ==> r.limbs[j] == 0,
            lvr(r.limbs@, 0, LIMBS - L) * pow2(b) + cq == lvr(a.limbs@, L, LIMBS as int),
            lo_nz == (exists|j: int| 0 <= j < L && a.limbs[j] != 0),
        ensures
            r.wf(),
            r.val() as int == (a.val() as int) / (pow2((64 * L + b) as nat) as int),
            (cq != 0 || lo_nz) == ((a.val() as int) % (pow2((64 * L + b) as nat) as int) != 0),
    {
        let n = LIMBS as int; let k = n - L;
        let pb = pow2(b) as int;
        let sh = pow2((64 * L + b) as nat) as int;
        let lo = lvr(a.limbs@, 0, L);
        let S = lvr(a.limbs@, L, n);
        let R = lvr(r.limbs@, 0, k);
        lemma_lvr_is_lv(a.limbs@, LIMBS as nat);
        lemma_lvr_is_lv(r.limbs@, LIMBS as nat);
        lemma_lvr_split(a.limbs@, 0, L, n);
        lemma_lvr_trailing_zeros(r.limbs@, 0, k, n);
        lemma_lvr_bound(a.limbs@, 0, L);
        lemma_lvr_bound(r.limbs@, 0, k);
        lemma_bp_is_pow2(L as nat);
        lemma_bp_pos(L);
        lemma_pow2_adds((64 * L) as nat, b);
        lemma_pow2_pos(b);
        assert(sh == bp(L) * pb);
        assert(r.val() as int == R);
        let rem = lo + bp(L) * cq;
        assert((a.val() as int) == sh * R + rem) by(nonlinear_arith)
            requires a.val() as int == lo + bp(L) * S, R * pb + cq == S, sh == bp(L) * pb, rem == lo + bp(L) * cq;
        assert(0 <= rem < sh) by(nonlinear_arith)
            requires rem == lo + bp(L) * cq, 0 <= lo < bp(L), 0 <= cq <= pb - 1, sh == bp(L) * pb, bp(L) >= 1;
        lemma_fundamental_div_mod_converse(a.val() as int, sh, R, rem);
        if lo_nz {
            let j = choose|j: int| 0 <= j < L && a.limbs[j] != 0;
            lemma_lvr_nonzero(a.limbs@, 0, L, j);
            assert(bp(L) * cq >= 0) by(nonlinear_arith) requires bp(L) >= 1, cq >= 0;
        } else {
            lemma_lvr_zero(a.limbs@, 0, L);
            if cq != 0 { assert(bp(L) * cq >= 1) by(nonlinear_arith) requires bp(L) >= 1, cq >= 1; }
            else { assert(bp(L) * 0 == 0) by(nonlinear_arith); }
        }
        // r.val() <= a.val() < 2^BITS
        a.lemma_wf_iff_lt();
        r.lemma_wf_iff_lt();
        assert(R <= a.val() as int) by(nonlinear_arith) requires a.val() as int == sh * R + rem, rem >= 0, sh >= 1, R >= 0;
    }

    // shifting by at least 64*LIMBS bits
    pub proof fn lemma_shift_all_out(a: Self, rhs: nat)
        requires a.wf(), rhs >= 64 * LIMBS
        ensures
            (a.val() * pow2(rhs)) % pow2(BITS as nat) == 0,
            (a.val() * pow2(rhs) >= pow2(BITS as nat)) == (a.val() != 0),
            (a.val() as int) / (pow2(rhs) as int) == 0,
            ((a.val() as int) % (pow2(rhs) as int) != 0) == (a.val() != 0),
    {
        let m = pow2(BITS as nat) as int;
        let d = (rhs - BITS) as nat;
        a.lemma_wf_lt();
        lemma_pow2_adds(BITS as nat, d);
        lemma_pow2_pos(d); lemma_pow2_pos(BITS as nat); lemma_pow2_pos(rhs);
        let pd = pow2(d) as int; let v = a.val() as int;
        assert(v * pow2(rhs) == m * (v * pd)) by(nonlinear_arith) requires pow2(rhs) == m * pd;
        lemma_mod_multiples_basic(v * pd, m);
        assert((m * (v * pd)) % m == 0) by { lemma_mul_is_commutative(m, v * pd); }
        if v != 0 {
            assert(m * (v * pd) >= m) by(nonlinear_arith) requires v >= 1, pd >= 1, m >= 1;
        } else {
            assert(m * (0 * pd) == 0) by(nonlinear_arith);
        }
        assert(v < pow2(rhs)) by(nonlinear_arith) requires v < m, pow2(rhs) == m * pd, pd >= 1, m >= 1;
        lemma_small_mod(v as nat, pow2(rhs));
        lemma_basic_div(v, pow2(rhs) as int);
    }

//@ extract src/bits.rs fn overflowing_shl bools=overflow
    pub fn overflowing_shl(self, rhs: usize) -> /*+*/(r:/*-*/ (Self, bool)/*+*/)
        requires self.wf(), BITS <= usize::MAX - 63
        ensures r.0.wf(),
            r.0.val() == (self.val() * pow2(rhs as nat)) % pow2(BITS as nat),
            r.1 == (self.val() * pow2(rhs as nat) >= pow2(BITS as nat)),/*-*/
    {
        let (limbs, bits) = (rhs / 64, rhs % 64);
        if limbs >= LIMBS {
            /*+*/proof { Self::lemma_shift_all_out(self, rhs as nat); }/*-*/
            return (Self::ZERO(), self != Self::ZERO());
        }
        let word_bits = 64;
        let mut r = Self::ZERO();
        let mut carry = 0;
        /*+*/let ghost y: u64 = 0;
        proof {
            assert((0u64 >> (63 - bits) as usize) >> 1usize == 0) by(bit_vector) requires bits < 64;
            assert(0 * pow2(bits as nat) == 0) by(nonlinear_arith);
            assert(bp(0) * 0 == 0) by(nonlinear_arith);
            assert(BITS > 0);
        }/*-*/
        for i in /*+*/iter:/*-*/ 0..Self::LIMBS() - limbs
            /*+*/invariant
                iter.seq().len() == LIMBS - limbs, limbs < LIMBS, bits < 64, word_bits == 64, self.wf(), rhs == 64 * limbs + bits,
                carry == (y >> (63 - bits) as usize) >> 1usize,
                forall|j: int| 0 <= j < limbs ==> r.limbs[j] == 0,
                lvr(r.limbs@, limbs as int, limbs + i) + bp(i as int) * carry == lvr(self.limbs@, 0, i as int) * pow2(bits as nat),/*-*/
        {
            /*+*/let ghost prev = r.limbs@; let ghost c0 = carry;/*-*/
            let x = self.limbs[i];
            r.limbs[i + limbs] = (x << bits) | carry;
            carry = (x >> (word_bits - bits - 1)) >> 1;
            /*+*/proof {
                lemma_shl_word(x, y, bits);
                y = x;
                let v = r.limbs[i + limbs] as int;
                let pb = pow2(bits as nat) as int;
                lemma_lvr_ext(prev, r.limbs@, limbs as int, limbs + i);
                lemma_lvr_push(r.limbs@, limbs as int, limbs + i);
                lemma_lvr_push(self.limbs@, 0, i as int);
                assert(bp(i + 1) == B * bp(i as int));
                let R0 = lvr(prev, limbs as int, limbs + i); let A0 = lvr(self.limbs@, 0, i as int);
                assert((R0 + bp(i as int) * v) + (B * bp(i as int)) * carry == (A0 + bp(i as int) * x) * pb) by(nonlinear_arith)
                    requires R0 + bp(i as int) * c0 == A0 * pb, v + carry * B == x * pb + c0;
            }/*-*/
        }
        let mut overflow = carry != 0;
        /*+*/let ghost k = LIMBS - limbs;/*-*/
        for i in /*+*/iter:/*-*/ Self::LIMBS() - limbs..Self::LIMBS()
            /*+*/invariant
                iter.seq().len() == limbs, k == LIMBS - limbs, limbs < LIMBS, k <= i <= LIMBS,
                overflow == (carry != 0 || exists|j: int| k <= j < i && self.limbs[j] != 0),/*-*/
        {
            overflow = overflow || ( self.limbs[i] != 0 );
        }
        /*+*/proof {
            lemma_shl_word(0, y, bits);
            Self::lemma_shl_result(self, r, limbs as int, bits as nat, carry as int,
                exists|j: int| LIMBS - limbs <= j < LIMBS && self.limbs[j] != 0);
        }/*-*/
        overflow = overflow || ( r.limbs[LIMBS - 1] > Self::MASK() );
        r.apply_mask();
        (r, overflow)
    }
//@ end

//@ extract src/bits.rs fn overflowing_shr bools=overflow
    pub fn overflowing_shr(self, rhs: usize) -> /*+*/(r:/*-*/ (Self, bool)/*+*/)
        requires self.wf(), BITS <= usize::MAX - 63
        ensures r.0.wf(),
            r.0.val() as int == (self.val() as int) / (pow2(rhs as nat) as int),
            r.1 == ((self.val() as int) % (pow2(rhs as nat) as int) != 0),/*-*/
    {
        let (limbs, bits) = (rhs / 64, rhs % 64);
        if limbs >= LIMBS {
            /*+*/proof { Self::lemma_shift_all_out(self, rhs as nat); }/*-*/
            return (Self::ZERO(), self != Self::ZERO());
        }
        let word_bits = 64;
        let mut r = Self::ZERO();
        let mut carry = 0;
        /*+*/let ghost y: u64 = 0;
        let ghost pb = pow2(bits as nat) as int;
        proof {
            lemma_shr_word(0, 0, bits);
            lemma_pow2_pos(bits as nat);
            lemma_small_mod(0, pow2(bits as nat));
            assert(0 * pb + 0 == 0) by(nonlinear_arith);
            assert(BITS > 0);
        }/*-*/
        for i in /*+*/iter:/*-*/ 0..LIMBS - limbs
            /*+*/invariant
                iter.seq().len() == LIMBS - limbs, limbs < LIMBS, bits < 64, word_bits == 64, self.wf(), rhs == 64 * limbs + bits,
                pb == pow2(bits as nat), pb > 0,
                carry == (y << (63 - bits) as usize) << 1usize,
                forall|j: int| LIMBS - limbs <= j < LIMBS ==> r.limbs[j] == 0,
                lvr(r.limbs@, LIMBS - limbs - i, LIMBS - limbs) * pb + (y as int) % pb == lvr(self.limbs@, LIMBS - i, LIMBS as int),/*-*/
        {
            /*+*/let ghost prev = r.limbs@;/*-*/
            let x = self.limbs[LIMBS - 1 - i];
            r.limbs[LIMBS - 1 - i - limbs] = (x >> bits) | carry;
            carry = (x << (word_bits - bits - 1)) << 1;
            /*+*/proof {
                lemma_shr_word(x, y, bits);
                let v = r.limbs[LIMBS - 1 - i - limbs] as int;
                let k = LIMBS - limbs;
                lemma_lvr_ext(prev, r.limbs@, k - i, k);
                let R0 = lvr(prev, k - i, k); let S0 = lvr(self.limbs@, LIMBS - i, LIMBS as int);
                assert(lvr(r.limbs@, k - i - 1, k) == v + B * lvr(r.limbs@, k - i, k));
                assert(lvr(self.limbs@, LIMBS - i - 1, LIMBS as int) == x as int + B * S0);
                let cq = (y as int) % pb;
                let pc = pow2((64 - bits) as nat) as int;
                lemma_pow2_adds(bits as nat, (64 - bits) as nat);
                lemma_pow2_64();
                lemma_fundamental_div_mod(x as int, pb);
                let q = (x as int) / pb; let rm = (x as int) % pb;
                assert((v + B * R0) * pb + rm == x + B * S0) by(nonlinear_arith)
                    requires v == q + cq * pc, pb * pc == B, x as int == pb * q + rm, R0 * pb + cq == S0;
                y = x;
            }/*-*/
        }
        let mut overflow = carry != 0;
        for i in /*+*/iter:/*-*/ 0..limbs
            /*+*/invariant
                iter.seq().len() == limbs, limbs < LIMBS,
                overflow == (carry != 0 || exists|j: int| 0 <= j < i && self.limbs[j] != 0),/*-*/
        {
            overflow = overflow || ( self.limbs[i] != 0 );
        }
        /*+*/proof {
            lemma_shr_word(0, y, bits);
            let cq = (y as int) % pb;
            let pc = pow2((64 - bits) as nat) as int;
            lemma_pow2_pos((64 - bits) as nat);
            lemma_mod_bound(y as int, pb);
            assert((carry != 0) == (cq != 0)) by(nonlinear_arith) requires carry as int == cq * pc, pc > 0, cq >= 0;
            Self::lemma_shr_result(self, r, limbs as int, bits as nat, cq,
                exists|j: int| 0 <= j < limbs && self.limbs[j] != 0);
        }/*-*/
        (r, overflow)
    }
//@ end

//@ extract src/bits.rs fn wrapping_shl
    pub fn wrapping_shl(self, rhs: usize) -> /*+*/(r:/*-*/ Self/*+*/)
        requires self.wf(), BITS <= usize::MAX - 63
        ensures r.wf(), r.val() == (self.val() * pow2(rhs as nat)) % pow2(BITS as nat),/*-*/
    {
        self.overflowing_shl(rhs).0
    }
//@ end

//@ extract src/bits.rs fn wrapping_shr
    pub fn wrapping_shr(self, rhs: usize) -> /*+*/(r:/*-*/ Self/*+*/)
        requires self.wf(), BITS <= usize::MAX - 63
        ensures r.wf(), r.val() as int == (self.val() as int) / (pow2(rhs as nat) as int),/*-*/
    {
        self.overflowing_shr(rhs).0
    }
//@ end

//@ extract src/bits.rs fn checked_shl
    pub fn checked_shl(self, rhs: usize) -> /*+*/(r:/*-*/ Option<Self>/*+*/)
        requires self.wf(), BITS <= usize::MAX - 63
        ensures
            r.is_some() == (self.val() * pow2(rhs as nat) < pow2(BITS as nat)),
            r.is_some() ==> r.unwrap().wf() && r.unwrap().val() == self.val() * pow2(rhs as nat),/*-*/
    {
        /*+*/proof { if self.val() * pow2(rhs as nat) < pow2(BITS as nat) { lemma_small_mod(self.val() * pow2(rhs as nat), pow2(BITS as nat)); } }/*-*/
        match self.overflowing_shl(rhs) {
            (value, false) => Some(value),
            _ => None,
        }
    }
//@ end

//@ extract src/bits.rs fn saturating_shl
    pub fn saturating_shl(self, rhs: usize) -> /*+*/(r:/*-*/ Self/*+*/)
        requires self.wf(), BITS <= usize::MAX - 63
        ensures r.wf(),
            self.val() * pow2(rhs as nat) < pow2(BITS as nat) ==> r.val() == self.val() * pow2(rhs as nat),
            self.val() * pow2(rhs as nat) >= pow2(BITS as nat) ==> r.val() == pow2(BITS as nat) - 1,/*-*/
    {
        /*+*/proof { if self.val() * pow2(rhs as nat) < pow2(BITS as nat) { lemma_small_mod(self.val() * pow2(rhs as nat), pow2(BITS as nat)); } }/*-*/
        match self.overflowing_shl(rhs) {
            (value, false) => value,
            _ => Self::MAX(),
        }
    }
//@ end

//@ extract src/bits.rs fn checked_shr
    pub fn checked_shr(self, rhs: usize) -> /*+*/(r:/*-*/ Option<Self>/*+*/)
        requires self.wf(), BITS <= usize::MAX - 63
        ensures
            r.is_some() == ((self.val() as int) % (pow2(rhs as nat) as int) == 0),
            r.is_some() ==> r.unwrap().wf() && r.unwrap().val() as int == (self.val() as int) / (pow2(rhs as nat) as int),/*-*/
    {
        match self.overflowing_shr(rhs) {
            (value, false) => Some(value),
            _ => None,
        }
    }
//@ end
    // a Uint-typed amount with any limb above the first non-zero is >= 2^64 > BITS: everything is shifted out
    pub proof fn lemma_big_amount(self, rhs: Self, any_hi: bool)
        requires self.wf(), rhs.wf(), BITS > 0, BITS <= usize::MAX - 63,
            any_hi == (exists|j: int| 1 <= j < LIMBS && rhs.limbs[j] != 0),
        ensures
            any_hi ==> (self.val() * pow2(rhs.val())) % pow2(BITS as nat) == 0 && (self.val() as int) / (pow2(rhs.val()) as int) == 0,
            !any_hi ==> rhs.val() == rhs.limbs[0] as nat,
    {
        let n = LIMBS as int;
        lemma_lvr_is_lv(rhs.limbs@, LIMBS as nat);
        lemma_lvr_split(rhs.limbs@, 0, 1, n);
        lemma_lvr_bound(rhs.limbs@, 1, n);
        assert(lvr(rhs.limbs@, 0, 1) == rhs.limbs[0] as int) by { assert(lvr(rhs.limbs@, 1, 1) == 0); assert(B * 0 == 0); }
        assert(bp(1) == B) by { assert(bp(0) == 1); assert(B * 1 == B); }
        if any_hi {
            let j = choose|j: int| 1 <= j < LIMBS && rhs.limbs[j] != 0;
            lemma_lvr_nonzero(rhs.limbs@, 1, n, j);
            let hi = lvr(rhs.limbs@, 1, n);
            assert(B * hi >= B) by(nonlinear_arith) requires hi >= 1;
            let r = rhs.val();
            assert(r >= 0x1_0000_0000_0000_0000);
            // 2^r is a multiple of 2^BITS and exceeds the value
            let d = (r - BITS) as nat;
            lemma_pow2_adds(BITS as nat, d); lemma_pow2_pos(d); lemma_pow2_pos(BITS as nat);
            self.lemma_wf_lt();
            let m = pow2(BITS as nat) as int; let pd = pow2(d) as int; let v = self.val() as int;
            assert(v * (m * pd) == m * (v * pd)) by(nonlinear_arith);
            lemma_mod_multiples_basic(v * pd, m);
            lemma_mul_is_commutative(m, v * pd);
            assert(v < m * pd) by(nonlinear_arith) requires v < m, pd >= 1, m >= 1;
            lemma_basic_div(v, m * pd);
        } else {
            lemma_lvr_zero(rhs.limbs@, 1, n);
            assert(B * 0 == 0);
        }
    }

//@ extract src/bits.rs fn shl ctx=">Shl<Self>forUint<BITS,LIMBS>" vis=none as=Shl_Self_val__shl rewrite="-> Self :: Output" => "-> Self" #1 rewrite="rhs . as_limbs ( ) [ 1 .. ] . iter ( ) . any ( | & limb | limb != 0 )" => "any_nonzero_above_first(rhs.as_limbs())" #1
    fn Shl_Self_val__shl(self, rhs: Self) -> /*+*/(r:/*-*/ Self/*+*/)
        requires self.wf(), rhs.wf(), BITS <= usize::MAX - 63
        ensures r.wf(), r.val() == (self.val() * pow2(rhs.val())) % pow2(BITS as nat)/*-*/
    {
        if BITS == 0 {
            /*+*/proof { lemma2_to64(); self.lemma_wf_lt(); lemma_small_mod(0, 1); assert(0 * pow2(rhs.val()) == 0) by(nonlinear_arith); }/*-*/
            return self;
        }
        /*+*/proof { self.lemma_big_amount(rhs, exists|j: int| 1 <= j < LIMBS && rhs.limbs[j] != 0); }/*-*/
        if any_nonzero_above_first(rhs.as_limbs()) {
            return Self::ZERO();
        }
        self.wrapping_shl(rhs.as_limbs()[0] as usize)
    }
//@ end

//@ extract src/bits.rs fn shr ctx=">Shr<Self>forUint<BITS,LIMBS>" vis=none as=Shr_Self_val__shr rewrite="-> Self :: Output" => "-> Self" #1 rewrite="rhs . as_limbs ( ) [ 1 .. ] . iter ( ) . any ( | & limb | limb != 0 )" => "any_nonzero_above_first(rhs.as_limbs())" #1
    fn Shr_Self_val__shr(self, rhs: Self) -> /*+*/(r:/*-*/ Self/*+*/)
        requires self.wf(), rhs.wf(), BITS <= usize::MAX - 63
        ensures r.wf(), r.val() as int == (self.val() as int) / (pow2(rhs.val()) as int)/*-*/
    {
        if BITS == 0 {
            /*+*/proof { lemma2_to64(); self.lemma_wf_lt(); lemma_pow2_pos(rhs.val()); lemma_basic_div(0, pow2(rhs.val()) as int); }/*-*/
            return self;
        }
        /*+*/proof { self.lemma_big_amount(rhs, exists|j: int| 1 <= j < LIMBS && rhs.limbs[j] != 0); }/*-*/
        if any_nonzero_above_first(rhs.as_limbs()) {
            return Self::ZERO();
        }
        self.wrapping_shr(rhs.as_limbs()[0] as usize)
    }
//@ end
}

// ---- src/algorithms/shift.rs: in-place sub-limb shifts of a limb slice ----
//@ extract src/algorithms/shift.rs fn shift_left_small rewrite="for limb in limbs {" => "for limb in limbs.iter_mut() {" #1
pub fn shift_left_small(limbs: &mut [u64], amount: usize) -> /*+*/(r:/*-*/ u64/*+*/)
    requires amount < 64
    ensures
        final(limbs).len() == old(limbs).len(),
        lvr(final(limbs)@, 0, old(limbs).len() as int) + r as int * bp(old(limbs).len() as int)
            == lvr(old(limbs)@, 0, old(limbs).len() as int) * pow2(amount as nat),
        (r as int) < pow2(amount as nat),/*-*/
{
    vassert (amount < 64 );
    let mut overflow = 0;
    /*+*/let ghost len_ = limbs.len() as int;
    let ghost old_s = limbs@;
    let ghost fin = final(limbs)@;
    let ghost y: u64 = 0;
    let ghost pa = pow2(amount as nat) as int;
    proof {
        lemma_shl_word(0, 0, amount);
        assert(0 * pa == 0) by(nonlinear_arith);
        assert(0 * bp(0) == 0) by(nonlinear_arith);
    }/*-*/
    for limb in /*+*/it:/*-*/ limbs.iter_mut()
        /*+*/invariant
            len_ == old_s.len(), fin.len() == len_, it.seq().len() == len_, amount < 64, pa == pow2(amount as nat),
            forall|j: int| 0 <= j < len_ ==> *(#[trigger] it.seq()[j]) == old_s[j],
            forall|j: int| 0 <= j < len_ ==> *final(#[trigger] it.seq()[j]) == fin[j],
            0 <= it.index@ <= len_,
            overflow == (y >> (63 - amount) as usize) >> 1usize,
            lvr(fin, 0, it.index@) + overflow as int * bp(it.index@) == lvr(old_s, 0, it.index@) * pa,/*-*/
    {
        /*+*/let ghost k = it.index@;
        let ghost x = *limb; let ghost c0 = overflow as int;/*-*/
        let value = (*limb << amount) | overflow;
        overflow = (*limb >> (63 - amount)) >> 1;
        *limb = value;
        /*+*/proof {
            assert(x == old_s[k]); assert(fin[k] == value);
            lemma_shl_word(x, y, amount);
            y = x;
            lemma_lvr_push(fin, 0, k); lemma_lvr_push(old_s, 0, k);
            assert(bp(k + 1) == B * bp(k));
            let R0 = lvr(fin, 0, k); let A0 = lvr(old_s, 0, k);
            assert((R0 + bp(k) * value as int) + overflow as int * (B * bp(k)) == (A0 + bp(k) * x as int) * pa) by(nonlinear_arith)
                requires R0 + c0 * bp(k) == A0 * pa, value as int + overflow as int * B == x as int * pa + c0;
        }/*-*/
    }
    /*+*/proof { assert(final(limbs)@ == fin); lemma_shl_word(0, y, amount); }/*-*/
    overflow
}
//@ end

//@ extract src/algorithms/shift.rs fn shift_right_small
pub fn shift_right_small(limbs: &mut [u64], amount: usize) -> /*+*/(r:/*-*/ u64/*+*/)
    requires amount < 64
    ensures
        final(limbs).len() == old(limbs).len(),
        lvr(old(limbs)@, 0, old(limbs).len() as int) * pow2((64 - amount) as nat)
            == lvr(final(limbs)@, 0, old(limbs).len() as int) * B + r as int,/*-*/
{
    vassert (amount < 64 );
    let mut overflow = 0;
    /*+*/let ghost len_ = limbs.len() as int;
    let ghost old_s = limbs@;
    let ghost fin = final(limbs)@;
    let ghost y: u64 = 0;
    let ghost pa = pow2(amount as nat) as int;
    let ghost pc = pow2((64 - amount) as nat) as int;
    proof {
        lemma_shr_word(0, 0, amount);
        lemma_pow2_pos(amount as nat);
        lemma_small_mod(0, pa as nat);
        assert(0 * pc == 0) by(nonlinear_arith);
        assert(0 * B + 0 == 0) by(nonlinear_arith);
        lemma_pow2_adds(amount as nat, (64 - amount) as nat); lemma_pow2_64();
    }/*-*/
    for limb in /*+*/it:/*-*/ limbs.iter_mut().rev()
        /*+*/invariant
            len_ == old_s.len(), fin.len() == len_, it.seq().len() == len_, amount < 64,
            pa == pow2(amount as nat), pc == pow2((64 - amount) as nat), pa * pc == B, pa > 0,
            forall|j: int| 0 <= j < len_ ==> *(#[trigger] it.seq()[j]) == old_s[len_ - 1 - j],
            forall|j: int| 0 <= j < len_ ==> *final(#[trigger] it.seq()[j]) == fin[len_ - 1 - j],
            0 <= it.index@ <= len_,
            overflow == (y << (63 - amount) as usize) << 1usize,
            lvr(old_s, len_ - it.index@, len_) * pc == lvr(fin, len_ - it.index@, len_) * B + overflow as int,/*-*/
    {
        /*+*/let ghost k = it.index@;
        let ghost i = len_ - 1 - k;
        let ghost x = *limb; let ghost c0 = overflow as int;/*-*/
        let value = (*limb >> amount) | overflow;
        overflow = (*limb << (63 - amount)) << 1;
        *limb = value;
        /*+*/proof {
            assert(x == old_s[i]); assert(fin[i] == value);
            lemma_shr_word(x, y, amount);
            lemma_shr_word(0, x, amount);
            let a = lvr(old_s, i + 1, len_); let f = lvr(fin, i + 1, len_);
            assert(lvr(old_s, i, len_) == x as int + B * a);
            assert(lvr(fin, i, len_) == value as int + B * f);
            lemma_fundamental_div_mod(x as int, pa);
            let q = (x as int) / pa; let rm = (x as int) % pa;
            let cq = (y as int) % pa;
            assert((x as int + B * a) * pc == (value as int + B * f) * B + rm * pc) by(nonlinear_arith)
                requires a * pc == f * B + c0, c0 == cq * pc, value as int == q + cq * pc, x as int == pa * q + rm, pa * pc == B;
            y = x;
        }/*-*/
    }
    /*+*/proof { assert(final(limbs)@ == fin); }/*-*/
    overflow
}
//@ end

} // verus!
fn main() {}

// unit bitlen: src/bits.rs leading_zeros, bit_len, byte_len — positions of the most significant set bit  (C06; used by C02/C07/C16 wrappers)
#![allow(non_snake_case)]
use vstd::prelude::*;
use vstd::arithmetic::power2::*;
use vstd::arithmetic::mul::*;
use vstd::arithmetic::div_mod::*;
use vstd::std_specs::bits::*;
use vstd::bits::*;
verus! {
//@ include lib/base.rs
//@ include lib/lvr.rs
//@ include lib/shift.rs

//@ extract src/lib.rs struct Uint
pub struct Uint<const BITS: usize, const LIMBS: usize> { pub
    limbs: [u64; LIMBS],
}
//@ end

//@ include lib/uint_spec.rs


// leading_zeros of a word determines its binary bracket: 2^(63-lz) <= x < 2^(64-lz)
pub proof fn lemma_lz_bracket(x: u64)
    requires x >= 1
    ensures u64_leading_zeros(x) < 64,
        pow2((63 - u64_leading_zeros(x)) as nat) <= x as nat, (x as nat) < pow2((64 - u64_leading_zeros(x)) as nat)
{
    lemma_lz_facts(x);
    let lz = u64_leading_zeros(x) as nat;
    lemma_pow2_adds((63 - lz) as nat, lz); lemma_pow2_adds((64 - lz) as nat, lz);
    lemma2_to64(); lemma_pow2_pos(lz);
    let s = pow2(lz) as int;
    lemma_pow2_adds(1, 63); assert(pow2(64) == B); assert(B / 2 == pow2(63) as int);
    assert(pow2((63 - lz) as nat) as int <= x as int) by(nonlinear_arith)
        requires (x as int) * s >= pow2((63 - lz) as nat) as int * s, s >= 1;
    assert((x as int) < pow2((64 - lz) as nat) as int) by(nonlinear_arith)
        requires (x as int) * s < pow2((64 - lz) as nat) as int * s, s >= 1;
}

// leading_zeros(2^k - 1) == 64 - k  for 1 <= k <= 64
pub proof fn lemma_lz_of_mask(x: u64, k: nat)
    requires 1 <= k <= 64, x as nat == pow2(k) - 1
    ensures u64_leading_zeros(x) == 64 - k
{
    lemma_pow2_pos(k); lemma2_to64();
    if k >= 1 { lemma_pow2_strictly_increases(0, k); }
    assert(x >= 1) by { lemma_pow2_adds(1, (k - 1) as nat); lemma_pow2_pos((k - 1) as nat); }
    lemma_lz_bracket(x);
    let lz = u64_leading_zeros(x) as nat;
    // 2^(63-lz) <= 2^k - 1 < 2^(64-lz)
    if 63 - lz >= k { lemma_pow2_strictly_increases(k, (63 - lz + 1) as nat); if 63 - lz > k { lemma_pow2_strictly_increases(k, (63 - lz) as nat); } }
    if 64 - lz < k { lemma_pow2_strictly_increases((64 - lz) as nat, k); }
    assert(63 - lz < k);
    assert(64 - lz >= k);
}

// a number whose highest non-zero limb is i lies in [s[i] * B^i, (s[i] + 1) * B^i)
pub proof fn lemma_top_limb_bracket(s: Seq<u64>, i: int, n: int)
    requires 0 <= i < n <= s.len(), forall|j: int| i < j < n ==> s[j] == 0
    ensures lvr(s, 0, n) >= bp(i) * s[i] as int, lvr(s, 0, n) < bp(i) * (s[i] as int + 1)
{
    lemma_lvr_trailing_zeros(s, 0, i + 1, n);
    lemma_lvr_push(s, 0, i);
    lemma_lvr_bound(s, 0, i);
    assert(bp(i) * (s[i] as int + 1) == bp(i) * s[i] as int + bp(i)) by(nonlinear_arith);
}

// N14: `s.iter().rposition(|&x| x != 0)` is routed through this wrapper whose body IS that expression.
// ASSUMED (label A, std's Iterator::rposition): last index holding a non-zero limb, or None. Kani: c14::c14_rposition_*.
#[verifier::external_body]
pub fn rposition_nonzero_arr<const N: usize>(s: &[u64; N]) -> (r: Option<usize>)
    ensures (match r {
        Some(i) => i < N && s[i as int] != 0 && (forall|j: int| i < j < N ==> s[j] == 0),
        None => forall|j: int| 0 <= j < N ==> s[j] == 0 })
{ s.iter().rposition(|&limb| limb != 0) }
// N14: `s.first().copied().unwrap_or(0)`: the first limb, or 0 for an empty array (std's slice::first / Option::copied)
#[verifier::external_body]
pub fn first_or_zero<const N: usize>(s: &[u64; N]) -> (r: u64)
    ensures r == (if N == 0 { 0u64 } else { s[0] })
{ s.first().copied().unwrap_or(0) }

impl<const BITS: usize, const LIMBS: usize> Uint<BITS, LIMBS> {
//@ import core MASK
//@ import core as_limbs

    pub proof fn lemma_val_lvr(self)
        ensures lvr(self.limbs@, 0, LIMBS as int) == self.val(), bp(LIMBS as int) == pow2(64 * LIMBS as nat)
    {
        lemma_lvr_is_lv(self.limbs@, LIMBS as nat);
        lemma_bp_is_pow2(LIMBS as nat);
    }

//@ extract src/bits.rs fn leading_zeros
    pub fn leading_zeros(&self) -> /*+*/(r:/*-*/ usize/*+*/)
        requires self.wf()
        ensures r <= BITS, is_bit_len(self.val(), (BITS - r) as nat)/*-*/
    {
        let mut i = LIMBS;
        /*+*/proof { self.lemma_val_lvr(); }/*-*/
        while i > 0
            /*+*/invariant i <= LIMBS, self.wf(), forall|j: int| i <= j < LIMBS ==> self.limbs[j] == 0
            decreases i/*-*/
        {
            i -= 1;
            if self.limbs[i] != 0 {
                let n = LIMBS - 1 - i;
                let skipped = n * 64;
                /*+*/proof {
                    // the mask is 2^k - 1 with k = BITS - 64*(LIMBS-1)
                    assert(BITS > 0);
                    let k: nat = if BITS % 64 == 0 { 64 } else { (BITS % 64) as nat };
                    assert(BITS == 64 * (LIMBS - 1) + k);
                    lemma2_to64();
                    if BITS % 64 != 0 { lemma_u64_pow2_no_overflow(k); assert(low_bits_mask(k) == pow2(k) - 1); }
                    lemma_lz_of_mask(spec_mask(BITS), k);
                    lemma_lz_bracket(self.limbs[i as int]);
                }/*-*/
                let fixed = Self::MASK().leading_zeros() as usize;
                let top = self.limbs[i].leading_zeros() as usize;
                /*+*/proof {
                    let ii = i as int; let x = self.limbs[ii]; let lz = u64_leading_zeros(x) as nat;
                    let k: nat = if BITS % 64 == 0 { 64 } else { (BITS % 64) as nat };
                    lemma_top_limb_bracket(self.limbs@, ii, LIMBS as int);
                    lemma_bp_is_pow2(i as nat);
                    lemma_pow2_adds(64 * i as nat, (63 - lz) as nat); lemma_pow2_adds(64 * i as nat, (64 - lz) as nat);
                    let w = pow2(64 * i as nat) as int;
                    lemma_pow2_pos(64 * i as nat);
                    let v = self.val() as int;
                    self.lemma_val_lvr();
                    assert(bp(ii) == w);
                    assert(v >= pow2((64 * i + 63 - lz) as nat)) by(nonlinear_arith)
                        requires v >= w * x as int, x as int >= pow2((63 - lz) as nat) as int, w >= 1, pow2((64 * i + 63 - lz) as nat) as int == w * pow2((63 - lz) as nat) as int;
                    assert(v < pow2((64 * i + 64 - lz) as nat)) by(nonlinear_arith)
                        requires v < w * (x as int + 1), x as int + 1 <= pow2((64 - lz) as nat) as int, w >= 1, pow2((64 * i + 64 - lz) as nat) as int == w * pow2((64 - lz) as nat) as int;
                    // top limb of a canonical value: if i == LIMBS-1 then x <= mask so lz >= fixed
                    if ii == LIMBS - 1 {
                        if lz < 64 - k {
                            lemma_pow2_strictly_increases(k, (63 - lz + 1) as nat);
                            if 63 - lz > k { lemma_pow2_strictly_increases(k, (63 - lz) as nat); }
                        }
                        assert(lz >= 64 - k);
                    }
                    assert(skipped + top - fixed == BITS - (64 * i + 64 - lz));
                    assert(v >= 1) by { lemma_pow2_pos((64 * i + 63 - lz) as nat); }
                }/*-*/
                return skipped + top - fixed;
            }
        }
        /*+*/proof { lemma_lvr_zero(self.limbs@, 0, LIMBS as int); }/*-*/
        BITS
    }
//@ end

//@ extract src/bits.rs fn bit_len
    pub fn bit_len(&self) -> /*+*/(r:/*-*/ usize/*+*/)
        requires self.wf()
        ensures r <= BITS, is_bit_len(self.val(), r as nat)/*-*/
    {
        BITS - self.leading_zeros()
    }
//@ end

//@ extract src/bits.rs fn byte_len
    pub fn byte_len(&self) -> /*+*/(r:/*-*/ usize/*+*/)
        requires self.wf(), BITS <= usize::MAX - 7
        ensures r == (self.bit_len_spec() + 7) / 8/*-*/
    {
        /*+*/proof {
            // the result of bit_len() is THE bit length
            assert forall|k: nat| is_bit_len(self.val(), k) implies k == self.bit_len_spec() by {
                let c = self.bit_len_spec();
                Self::lemma_bit_len_unique(self.val(), k, c);
            }
        }/*-*/
        (self.bit_len() + 7) / 8
    }
//@ end

    pub open spec fn bit_len_spec(self) -> nat { choose|k: nat| is_bit_len(self.val(), k) }
    // the bit length is unique
    pub proof fn lemma_bit_len_unique(x: nat, k1: nat, k2: nat)
        requires is_bit_len(x, k1), is_bit_len(x, k2)
        ensures k1 == k2
    {
        if x > 0 {
            if k1 < k2 { lemma_pow2_strictly_increases(k1, k2); if k1 < k2 - 1 { lemma_pow2_strictly_increases(k1, (k2 - 1) as nat); } }
            if k2 < k1 { lemma_pow2_strictly_increases(k2, k1); if k2 < k1 - 1 { lemma_pow2_strictly_increases(k2, (k1 - 1) as nat); } }
        }
    }
//@ extract src/bits.rs fn most_significant_bits rewrite="self . as_limbs ( ) . iter ( ) . rposition ( | & limb | limb != 0 )" => "rposition_nonzero_arr(self.as_limbs())" #1 rewrite="self . as_limbs ( ) . first ( ) . copied ( ) . unwrap_or ( 0 )" => "first_or_zero(self.as_limbs())" #1
    pub fn most_significant_bits(&self) -> /*+*/(r:/*-*/ (u64, usize)/*+*/)
        requires self.wf(), BITS <= usize::MAX - 63
        ensures
            // the top 64 significant bits and the matching exponent: bits == floor(value / 2^exponent), normalised unless the value fits a word
            r.0 as int == (self.val() as int) / (pow2(r.1 as nat) as int),
            r.1 > 0 ==> r.0 >= 0x8000_0000_0000_0000,
            self.val() < 0x1_0000_0000_0000_0000 ==> r.1 == 0,/*-*/
    {
        /*+*/proof { self.lemma_val_lvr(); lemma2_to64(); lemma_pow2_64(); }/*-*/
        let first_set_limb = rposition_nonzero_arr(self.as_limbs())
            .unwrap_or(0);
        /*+*/let ghost n = LIMBS as int; let ghost f = first_set_limb as int;
        proof {
            // everything above first_set_limb is zero
            if n > 0 { lemma_lvr_trailing_zeros(self.limbs@, 0, f + 1, n); }
        }/*-*/
        if first_set_limb == 0 {
            /*+*/proof {
                if n > 0 {
                    assert(lvr(self.limbs@, 0, 1) == self.limbs[0] as int) by { assert(lvr(self.limbs@, 1, 1) == 0); assert(B * 0 == 0); }
                    lemma_div_basics(self.limbs[0] as int);
                } else { assert(lvr(self.limbs@, 0, 0) == 0); }
            }/*-*/
            (first_or_zero(self.as_limbs()), 0)
        } else {
            let hi = self.as_limbs()[first_set_limb];
            let lo = self.as_limbs()[first_set_limb - 1];
            let leading_zeros = hi.leading_zeros();
            /*+*/proof {
                lemma_lz_facts(hi);
                let lz = leading_zeros as nat;
                // value == low + B^(f-1) * (lo + B*hi), low < B^(f-1)
                lemma_lvr_split(self.limbs@, 0, f - 1, f + 1);
                lemma_lvr_bound(self.limbs@, 0, f - 1);
                assert(lvr(self.limbs@, f - 1, f + 1) == lo as int + B * hi as int) by {
                    assert(lvr(self.limbs@, f + 1, f + 1) == 0); assert(B * 0 == 0);
                    assert(lvr(self.limbs@, f, f + 1) == hi as int);
                }
                let low = lvr(self.limbs@, 0, f - 1); let w = bp(f - 1);
                lemma_bp_pos(f - 1); lemma_bp_is_pow2((f - 1) as nat);
                let c = (64 - lz) as nat; let pc = pow2(c) as int; let ps = pow2(lz) as int;
                lemma_pow2_pos(c); lemma_pow2_pos(lz); lemma_pow2_adds(c, lz);
                // exponent == 64*(f-1) + c
                lemma_pow2_adds((64 * (f - 1)) as nat, c);
                let top = lo as int + B * hi as int;
                assert(self.val() as int == w * top + low);
                assert(top >= 0) by(nonlinear_arith) requires top == lo as int + B * hi as int, lo as int >= 0, hi as int >= 0;
                lemma_mul_is_commutative(w, top);
                lemma_fundamental_div_mod_converse(self.val() as int, w, top, low);
                lemma_div_denominator(self.val() as int, w, pc);
                // (lo + B*hi) / 2^c == hi * 2^lz + lo / 2^c
                lemma_fundamental_div_mod(lo as int, pc); lemma_mod_bound(lo as int, pc);
                let q = (lo as int) / pc; let rr = (lo as int) % pc;
                assert(top == pc * (hi as int * ps + q) + rr) by(nonlinear_arith)
                    requires top == lo as int + B * hi as int, lo as int == pc * q + rr, pc * ps == B;
                lemma_fundamental_div_mod_converse(top, pc, hi as int * ps + q, rr);
                if lz > 0 {
                    lemma_shl_or_shr_u64(hi, lo, leading_zeros);
                    // hi < 2^c so hi % 2^c == hi
                    assert((hi as int) < pc) by(nonlinear_arith) requires (hi as int) * ps < B, pc * ps == B, ps >= 1, pc >= 1;
                    lemma_small_mod(hi as nat, pc as nat);
                    assert(q < ps);
                } else {
                    assert(ps == 1 && pc == B);
                    lemma_basic_div(lo as int, B);
                    assert(hi as int * 1 == hi as int) by(nonlinear_arith);
                }
                assert(q >= 0) by { lemma_div_pos_is_pos(lo as int, pc); }
            }/*-*/
            let bits = if leading_zeros > 0 {
                (hi << leading_zeros) | (lo >> (64 - leading_zeros))
            } else {
                hi
            };
            let exponent = first_set_limb * 64 - leading_zeros as usize;
            /*+*/proof {
                assert(bits as int >= 0x8000_0000_0000_0000) by {
                    let ps = pow2(leading_zeros as nat) as int;
                    assert(B / 2 == 0x8000_0000_0000_0000);
                }
                // the value has more than 64 bits
                lemma_lvr_split(self.limbs@, 0, f, f + 1);
                lemma_lvr_bound(self.limbs@, 0, f); lemma_bp_pos(f);
                assert(lvr(self.limbs@, f, f + 1) == hi as int) by { assert(lvr(self.limbs@, f + 1, f + 1) == 0); assert(B * 0 == 0); }
                assert(bp(f) >= B) by { lemma_bp_add(1, f - 1); assert(bp(1) == B) by { assert(bp(0) == 1); assert(B * 1 == B); }; lemma_bp_pos(f - 1); assert(B * bp(f - 1) >= B) by(nonlinear_arith) requires bp(f - 1) >= 1; }
                assert(bp(f) * hi as int >= B) by(nonlinear_arith) requires bp(f) >= B, hi as int >= 1;
            }/*-*/
            (bits, exponent)
        }
    }
//@ end
}

} // verus!
fn main() {}

// unit core: src/lib.rs — the Uint type, its constants, masking, from_limbs  (C04 invariant, used by all)
#![allow(non_snake_case)]
use vstd::prelude::*;
use vstd::arithmetic::power2::*;
use vstd::arithmetic::mul::*;
use vstd::arithmetic::div_mod::*;
use vstd::bits::*;
verus! {
//@ include lib/base.rs

//@ extract src/lib.rs struct Uint
pub struct Uint<const BITS: usize, const LIMBS: usize> { pub
    limbs: [u64; LIMBS],
}
//@ end

//@ include lib/uint_spec.rs

//@ extract src/lib.rs fn nlimbs
pub fn nlimbs(bits: usize) -> /*+*/(r:/*-*/ usize/*+*/)
    requires bits <= usize::MAX - 63
    ensures r == spec_nlimbs(bits)/*-*/
{
    (bits + 63) / 64
}
//@ end

//@ extract src/lib.rs fn mask
pub fn mask(bits: usize) -> /*+*/(r:/*-*/ u64/*+*/)
    ensures r == spec_mask(bits)/*-*/
{
    if bits == 0 {
        return 0;
    }
    let bits = bits % 64;
    if bits == 0 {
        u64::MAX
    } else {
        /*+*/proof {
            let k = bits as u64;
            assert(0 < k < 64);
            assert((1u64 << k) >= 1 && (1u64 << k) as nat == pow2(k as nat)) by {
                lemma_u64_pow2_no_overflow(k as nat);
                lemma_pow2_pos(k as nat);
                lemma_u64_shl_is_mul(1, k);
            }
            assert(low_bits_mask(k as nat) == pow2(k as nat) - 1);
        }/*-*/
        (1 << bits) - 1
    }
}
//@ end

impl<const BITS: usize, const LIMBS: usize> Uint<BITS, LIMBS> {

//@ extract src/lib.rs const LIMBS
    pub fn LIMBS ( ) -> /*+*/(r:/*-*/ usize/*+*/)
        requires Self::sized(), BITS <= usize::MAX - 63
        ensures r == LIMBS/*-*/
    { {
        let limbs = nlimbs(BITS);
        vassert (
            LIMBS == limbs );
        limbs
    } }
//@ end

//@ extract src/lib.rs const MASK
    pub fn MASK ( ) -> /*+*/(r:/*-*/ u64/*+*/)
        ensures r == spec_mask(BITS)/*-*/
    { mask(BITS) }
//@ end

//@ extract src/lib.rs const SHOULD_MASK
    pub fn SHOULD_MASK ( ) -> /*+*/(r:/*-*/ bool/*+*/)
        ensures r == (BITS > 0 && spec_mask(BITS) != u64::MAX)/*-*/
    { BITS > 0 && Self::MASK() != u64::MAX }
//@ end

//@ extract src/lib.rs const BITS
    pub fn BITS ( ) -> /*+*/(r:/*-*/ usize/*+*/)
        ensures r == BITS/*-*/
    { BITS }
//@ end

//@ extract src/lib.rs const ZERO
    pub fn ZERO ( ) -> /*+*/(r:/*-*/ Self/*+*/)
        requires Self::sized(), BITS <= usize::MAX - 63
        ensures r.wf(), r.val() == 0, forall|j: int| 0 <= j < LIMBS ==> r.limbs[j] == 0/*-*/
    {
        /*+*/proof { lemma_lv_zero([0u64; LIMBS]@, LIMBS as nat); }/*-*/
        Self::from_limbs([0; LIMBS])
    }
//@ end

//@ extract src/lib.rs const MAX
    pub fn MAX ( ) -> /*+*/(r:/*-*/ Self/*+*/)
        requires Self::sized(), BITS <= usize::MAX - 63
        ensures r.wf(), r.val() == pow2(BITS as nat) - 1/*-*/
    {
        /*+*/proof { lemma_lv_ones([u64::MAX; LIMBS]@, LIMBS as nat); lemma_pow2_pos(BITS as nat); lemma_pow2_pos(64 * LIMBS as nat);
                lemma_max_mod(BITS as nat, LIMBS as nat); }/*-*/
        Self::from_limbs_unmasked([u64::MAX; LIMBS])
    }
//@ end

//@ extract src/lib.rs fn as_limbs
    pub fn as_limbs(&self) -> /*+*/(r:/*-*/ &[u64; LIMBS]/*+*/)
        ensures r@ == self.limbs@/*-*/
    {
        &self.limbs
    }
//@ end

//@ extract src/lib.rs fn into_limbs
    pub fn into_limbs(self) -> /*+*/(r:/*-*/ [u64; LIMBS]/*+*/)
        ensures r@ == self.limbs@/*-*/
    {
        self.limbs
    }
//@ end

//@ extract src/lib.rs fn from_limbs
    pub fn from_limbs(limbs: [u64; LIMBS]) -> /*+*/(r:/*-*/ Self/*+*/)
        requires Self::sized(), BITS <= usize::MAX - 63,
            // documented: panics if the value is too large; no panic is the obligation here
            BITS > 0 ==> limbs[LIMBS - 1] <= spec_mask(BITS),
        ensures r.wf(), r.limbs@ == limbs@/*-*/
    {
        if Self::SHOULD_MASK() {
            vassert (
                limbs[Self::LIMBS() - 1] <= Self::MASK() );
        }
        Self { limbs }
    }
//@ end

//@ extract src/lib.rs fn from_limbs_unmasked
    pub fn from_limbs_unmasked(limbs: [u64; LIMBS]) -> /*+*/(r:/*-*/ Self/*+*/)
        requires Self::sized(), BITS <= usize::MAX - 63
        ensures r.wf(), r.val() == lv(limbs@, LIMBS as nat) % pow2(BITS as nat)/*-*/
    {
        let _ = Self::LIMBS();
        Self { limbs }.masked()
    }
//@ end

//@ extract src/lib.rs fn apply_mask
    pub fn apply_mask(&mut self)
        /*+*/requires Self::sized()
        ensures final(self).wf(), final(self).val() == old(self).val() % pow2(BITS as nat),
            forall|j: int| 0 <= j < LIMBS - 1 ==> final(self).limbs[j] == old(self).limbs[j],/*-*/
    {
        /*+*/let ghost s0 = *self;/*-*/
        if Self::SHOULD_MASK() {
            self.limbs[LIMBS - 1] &= Self::MASK();
        }
        /*+*/proof { s0.lemma_masked(*self); }/*-*/
    }
//@ end

//@ extract src/lib.rs fn masked
    pub fn masked(self) -> /*+*/(r:/*-*/ Self/*+*/)
        requires Self::sized()
        ensures r.wf(), r.val() == self.val() % pow2(BITS as nat),
            forall|j: int| 0 <= j < LIMBS - 1 ==> r.limbs[j] == self.limbs[j],/*-*/
    { let mut this = self ;
        if Self::SHOULD_MASK() {
            this.limbs[LIMBS - 1] &= Self::MASK();
        }
        /*+*/proof { self.lemma_masked(this); }/*-*/
        this
    }
//@ end

    // the effect of `if SHOULD_MASK { limbs[LIMBS-1] &= MASK }` on the abstract value
    pub proof fn lemma_masked(self, this: Self)
        requires Self::sized(),
            forall|j: int| 0 <= j < LIMBS - 1 ==> this.limbs[j] == self.limbs[j],
            (BITS > 0 && spec_mask(BITS) != u64::MAX) ==> this.limbs[LIMBS - 1] == self.limbs[LIMBS - 1] & spec_mask(BITS),
            !(BITS > 0 && spec_mask(BITS) != u64::MAX) ==> this.limbs@ == self.limbs@,
        ensures this.wf(), this.val() == self.val() % pow2(BITS as nat)
    {
        if BITS > 0 && spec_mask(BITS) != u64::MAX {
            let top0 = self.limbs[LIMBS - 1];
            let n = (LIMBS - 1) as nat;
            let k = (BITS % 64) as nat;
            let w = pow2(64 * n);
            let top1 = this.limbs[LIMBS - 1];
            assert(k != 0);
            lemma_u64_pow2_no_overflow(k);
            lemma_pow2_pos(k);
            assert(low_bits_mask(k) == pow2(k) - 1);
            assert(spec_mask(BITS) == low_bits_mask(k) as u64);
            assert(top1 == top0 & (low_bits_mask(k) as u64));
            lemma_u64_low_bits_mask_is_mod(top0, k);
            assert(top1 as nat == (top0 as nat) % pow2(k));
            lemma_pow2_pos(64 * n);
            assert(top1 <= spec_mask(BITS)) by { lemma_mod_bound(top0 as int, pow2(k) as int); }
            let low = lv(self.limbs@, n);
            lemma_lv_ext(self.limbs@, this.limbs@, n);
            lemma_lv_bound(self.limbs@, n);
            assert(this.val() == low + (top1 as nat) * w);
            assert(self.val() == low + (top0 as nat) * w);
            lemma_pow2_adds(64 * n, k);
            let x = (low + (top0 as nat) * w) as int;
            lemma_mod_breakdown(x, w as int, pow2(k) as int);
            lemma_mul_is_commutative(top0 as int, w as int);
            lemma_fundamental_div_mod_converse(x, w as int, top0 as int, low as int);
            assert(x / (w as int) == top0 as int);
            assert(x % (w as int) == low as int);
            assert(x % ((w * pow2(k)) as int) == (w as int) * ((top0 as int) % (pow2(k) as int)) + low as int);
            lemma_mul_is_commutative(w as int, top1 as int);
            assert(pow2(BITS as nat) == w * pow2(k));
            assert(this.val() as int == x % (pow2(BITS as nat) as int));
        } else {
            if BITS > 0 {
                lemma_lv_bound(self.limbs@, LIMBS as nat);
                assert(spec_mask(BITS) == u64::MAX);
                assert(BITS % 64 == 0) by {
                    if BITS % 64 != 0 {
                        let k = (BITS % 64) as nat;
                        lemma_u64_pow2_no_overflow(k);
                        assert(low_bits_mask(k) == pow2(k) - 1);
                        lemma_pow2_strictly_increases(k, 64);
                        lemma_pow2_64();
                    }
                }
                assert(BITS == 64 * LIMBS);
                lemma_pow2_pos(BITS as nat);
                lemma_small_mod(self.val(), pow2(BITS as nat));
            } else {
                lemma2_to64();
                assert(self.val() == 0);
            }
        }
    }
}

pub proof fn lemma_lv_zero(s: Seq<u64>, n: nat)
    requires n <= s.len(), forall|j: int| 0 <= j < n ==> s[j] == 0
    ensures lv(s, n) == 0
    decreases n
{
    if n > 0 { lemma_lv_zero(s, (n - 1) as nat); }
}

pub proof fn lemma_lv_ones(s: Seq<u64>, n: nat)
    requires n <= s.len(), forall|j: int| 0 <= j < n ==> s[j] == u64::MAX
    ensures lv(s, n) == pow2(64 * n) - 1
    decreases n
{
    if n == 0 { lemma2_to64(); } else {
        lemma_lv_ones(s, (n - 1) as nat);
        let w = pow2(64 * (n - 1) as nat);
        lemma_pow2_adds(64 * (n - 1) as nat, 64);
        lemma_pow2_64();
        assert((B - 1) * w == B * w - w) by(nonlinear_arith);
        assert(B * w == w * B) by(nonlinear_arith);
    }
}

// (2^(64 L) - 1) mod 2^bits == 2^bits - 1 when bits <= 64 L
pub proof fn lemma_max_mod(bits: nat, l: nat)
    requires bits <= 64 * l
    ensures (pow2(64 * l) - 1) % (pow2(bits) as int) == pow2(bits) - 1
{
    let d = (64 * l - bits) as nat;
    lemma_pow2_adds(bits, d);
    lemma_pow2_pos(bits);
    lemma_pow2_pos(d);
    let m = pow2(bits) as int;
    let q = pow2(d) as int;
    assert(pow2(64 * l) - 1 == (q - 1) * m + (m - 1)) by(nonlinear_arith)
        requires pow2(64 * l) == m * q;
    lemma_fundamental_div_mod_converse(pow2(64 * l) - 1, m, q - 1, m - 1);
}

} // verus!
fn main() {}

// unit mul: src/mul.rs — Uint-level multiplication wrappers over addmul / addmul_n  (C02)
#![allow(non_snake_case)]
use vstd::prelude::*;
use vstd::arithmetic::power2::*;
use vstd::arithmetic::mul::*;
use vstd::arithmetic::div_mod::*;
use vstd::bits::*;
verus! {
//@ include lib/base.rs
//@ include lib/lvr.rs

//@ extract src/lib.rs struct Uint
pub struct Uint<const BITS: usize, const LIMBS: usize> { pub
    limbs: [u64; LIMBS],
}
//@ end

//@ include lib/uint_spec.rs

pub open spec fn total(old_s: Seq<u64>, a0: Seq<u64>, b0: Seq<u64>) -> int {
    lvr(old_s, 0, old_s.len() as int) + lvr(a0, 0, a0.len() as int) * lvr(b0, 0, b0.len() as int)
}

//@ import addmul addmul
//@ import addmul_n addmul_n
//@ import core nlimbs
pub mod algorithms { pub use super::addmul; pub use super::addmul_n; }

// raw product in a zeroed LIMBS-limb buffer, then flag and mask  ==>  value and flag modulo 2^BITS
pub proof fn lemma_mul_result(p: int, raw: int, bits: nat, l: nat)
    requires p >= 0, bits <= 64 * l, raw == p % (pow2(64 * l) as int)
    ensures raw % (pow2(bits) as int) == p % (pow2(bits) as int),
        (p >= pow2(bits)) == (p >= pow2(64 * l) || raw >= pow2(bits))
{
    let full = pow2(64 * l) as int; let m = pow2(bits) as int;
    let d = (64 * l - bits) as nat;
    lemma_pow2_adds(bits, d); lemma_pow2_pos(bits); lemma_pow2_pos(d); lemma_pow2_pos(64 * l);
    assert(full == m * pow2(d));
    lemma_mod_mod(p, m, pow2(d) as int);
    lemma_mod_bound(p, full);
    assert(full >= m) by(nonlinear_arith) requires full == m * pow2(d), pow2(d) >= 1, m >= 1;
    if p < full { lemma_small_mod(p as nat, full as nat); }
    lemma_fundamental_div_mod(p, full);
    lemma_div_pos_is_pos(p, full);
    assert(p >= raw) by(nonlinear_arith) requires p == full * (p / full) + raw, p / full >= 0, full >= 1;
}

impl<const BITS: usize, const LIMBS: usize> Uint<BITS, LIMBS> {
//@ import core MASK
//@ import core ZERO
//@ import core MAX
//@ import core apply_mask
//@ import core as_limbs
//@ import bitlen leading_zeros
//@ import bitlen bit_len
//@ import basics is_zero
//@ import basics ONE
//@ import basics bit

    // bridge: lvr/bp view of the limb array == val()
    pub proof fn lemma_val_lvr(self)
        ensures lvr(self.limbs@, 0, LIMBS as int) == self.val(), bp(LIMBS as int) == pow2(64 * LIMBS as nat)
    {
        lemma_lvr_is_lv(self.limbs@, LIMBS as nat);
        lemma_bp_is_pow2(LIMBS as nat);
    }

//@ extract src/mul.rs fn overflowing_mul bools=overflow
    pub fn overflowing_mul(self, rhs: Self) -> /*+*/(r:/*-*/ (Self, bool)/*+*/)
        requires self.wf(), rhs.wf(), BITS <= usize::MAX - 63
        ensures r.0.wf(),
            r.0.val() == (self.val() * rhs.val()) % pow2(BITS as nat),
            r.1 == (self.val() * rhs.val() >= pow2(BITS as nat)),/*-*/
    {
        let mut result = Self::ZERO();
        /*+*/let ghost z = result;/*-*/
        let mut overflow = algorithms::addmul(&mut result.limbs, self.as_limbs(), rhs.as_limbs());
        /*+*/let ghost raw = result;
        proof {
            z.lemma_val_lvr(); self.lemma_val_lvr(); rhs.lemma_val_lvr(); raw.lemma_val_lvr();
            assert(self.val() * rhs.val() >= 0) by(nonlinear_arith) requires self.val() >= 0, rhs.val() >= 0;
            assert(total(z.limbs@, self.limbs@, rhs.limbs@) == self.val() * rhs.val());
            if BITS > 0 {
                lemma_mul_result((self.val() * rhs.val()) as int, raw.val() as int, BITS as nat, LIMBS as nat);
                raw.lemma_wf_iff_lt();
            } else {
                lemma2_to64(); assert(self.val() == 0 && rhs.val() == 0); assert(raw.val() == 0);
                assert(self.val() * rhs.val() == 0) by(nonlinear_arith) requires self.val() == 0;
                assert(bp(0) == 1);
            }
        }/*-*/
        if BITS > 0 {
            overflow = overflow || ( result.limbs[LIMBS - 1] > Self::MASK() );
            result.apply_mask();
        }
        (result, overflow)
    }
//@ end

//@ extract src/mul.rs fn wrapping_mul
    pub fn wrapping_mul(self, rhs: Self) -> /*+*/(r:/*-*/ Self/*+*/)
        requires self.wf(), rhs.wf(), BITS <= usize::MAX - 63
        ensures r.wf(), r.val() == (self.val() * rhs.val()) % pow2(BITS as nat)/*-*/
    {
        let mut result = Self::ZERO();
        /*+*/let ghost z = result;/*-*/
        algorithms::addmul_n(&mut result.limbs, self.as_limbs(), rhs.as_limbs());
        /*+*/let ghost raw = result;
        proof {
            z.lemma_val_lvr(); self.lemma_val_lvr(); rhs.lemma_val_lvr(); raw.lemma_val_lvr();
            assert(self.val() * rhs.val() >= 0) by(nonlinear_arith) requires self.val() >= 0, rhs.val() >= 0;
            assert(total(z.limbs@, self.limbs@, rhs.limbs@) == self.val() * rhs.val());
            if BITS > 0 {
                lemma_mul_result((self.val() * rhs.val()) as int, raw.val() as int, BITS as nat, LIMBS as nat);
            } else {
                lemma2_to64(); assert(self.val() == 0 && rhs.val() == 0); assert(raw.val() == 0);
                assert(self.val() * rhs.val() == 0) by(nonlinear_arith) requires self.val() == 0;
            }
        }/*-*/
        if BITS > 0 {
            result.apply_mask();
        }
        result
    }
//@ end

//@ extract src/mul.rs fn checked_mul
    pub fn checked_mul(self, rhs: Self) -> /*+*/(r:/*-*/ Option<Self>/*+*/)
        requires self.wf(), rhs.wf(), BITS <= usize::MAX - 63
        ensures
            r.is_none() <==> self.val() * rhs.val() >= pow2(BITS as nat),
            r.is_some() ==> r.unwrap().wf() && r.unwrap().val() == self.val() * rhs.val(),/*-*/
    {
        /*+*/proof {
            lemma_pow2_pos(BITS as nat);
            assert(self.val() * rhs.val() >= 0) by(nonlinear_arith) requires self.val() >= 0, rhs.val() >= 0;
            if self.val() * rhs.val() < pow2(BITS as nat) { lemma_small_mod(self.val() * rhs.val(), pow2(BITS as nat)); }
        }/*-*/
        match self.overflowing_mul(rhs) {
            (value, false) => Some(value),
            _ => None,
        }
    }
//@ end

//@ extract src/mul.rs fn saturating_mul
    pub fn saturating_mul(self, rhs: Self) -> /*+*/(r:/*-*/ Self/*+*/)
        requires self.wf(), rhs.wf(), BITS <= usize::MAX - 63
        ensures r.wf(),
            self.val() * rhs.val() >= pow2(BITS as nat) ==> r.val() == pow2(BITS as nat) - 1,
            self.val() * rhs.val() < pow2(BITS as nat) ==> r.val() == self.val() * rhs.val(),/*-*/
    {
        /*+*/proof {
            lemma_pow2_pos(BITS as nat);
            assert(self.val() * rhs.val() >= 0) by(nonlinear_arith) requires self.val() >= 0, rhs.val() >= 0;
            if self.val() * rhs.val() < pow2(BITS as nat) { lemma_small_mod(self.val() * rhs.val(), pow2(BITS as nat)); }
        }/*-*/
        match self.overflowing_mul(rhs) {
            (value, false) => value,
            _ => Self::MAX(),
        }
    }
//@ end
//@ extract src/mul.rs fn widening_mul
    pub fn widening_mul<
        const BITS_RHS: usize,
        const LIMBS_RHS: usize,
        const BITS_RES: usize,
        const LIMBS_RES: usize,
    >(
        self,
        rhs: Uint<BITS_RHS, LIMBS_RHS>,
    ) -> /*+*/(r:/*-*/ Uint<BITS_RES, LIMBS_RES>/*+*/)
        requires self.wf(), rhs.wf(), BITS_RES <= usize::MAX - 63,
            // documented: panics if the const generic arguments are incorrect
            BITS_RES == BITS + BITS_RHS, LIMBS_RES == spec_nlimbs(BITS_RES),
        ensures r.wf(), r.val() == self.val() * rhs.val()/*-*/
    {
        vassert ( (BITS_RES ) == ( BITS + BITS_RHS ) );
        vassert ( (LIMBS_RES ) == ( nlimbs(BITS_RES) ) );
        let mut result = Uint::<BITS_RES, LIMBS_RES>::ZERO();
        /*+*/let ghost z = result;/*-*/
        algorithms::addmul(&mut result.limbs, self.as_limbs(), rhs.as_limbs());
        /*+*/proof {
            z.lemma_val_lvr(); self.lemma_val_lvr(); rhs.lemma_val_lvr(); result.lemma_val_lvr();
            let p = (self.val() * rhs.val()) as int;
            assert(p >= 0) by(nonlinear_arith) requires p == self.val() * rhs.val(), self.val() >= 0, rhs.val() >= 0;
            assert(total(z.limbs@, self.limbs@, rhs.limbs@) == p);
            self.lemma_wf_lt(); rhs.lemma_wf_lt();
            lemma_pow2_adds(BITS as nat, BITS_RHS as nat);
            let m = pow2(BITS_RES as nat) as int;
            lemma_pow2_pos(BITS as nat); lemma_pow2_pos(BITS_RHS as nat);
            assert(p < m) by(nonlinear_arith)
                requires p == self.val() * rhs.val(), 0 <= self.val() < pow2(BITS as nat), 0 <= rhs.val() < pow2(BITS_RHS as nat),
                    m == pow2(BITS as nat) * pow2(BITS_RHS as nat);
            let full = pow2(64 * LIMBS_RES as nat) as int;
            let d = (64 * LIMBS_RES - BITS_RES) as nat;
            lemma_pow2_adds(BITS_RES as nat, d); lemma_pow2_pos(d); lemma_pow2_pos(BITS_RES as nat);
            assert(full >= m) by(nonlinear_arith) requires full == m * pow2(d), pow2(d) >= 1, m >= 1;
            lemma_small_mod(p as nat, full as nat);
            assert(result.val() == p);
            if BITS_RES > 0 { result.lemma_wf_iff_lt(); }
        }/*-*/
        if LIMBS_RES > 0 {
            vassert (result.limbs[LIMBS_RES - 1] <= Uint::<BITS_RES, LIMBS_RES>::MASK() );
        }
        result
    }
//@ end
}


} // verus!
fn main() {}

// unit spigot: src/base_convert.rs — SpigotLittle::next, one digit of to_base_le (Knuth algorithm S)  (C09)
#![allow(non_snake_case)]
use vstd::prelude::*;
use vstd::arithmetic::power2::*;
use vstd::arithmetic::mul::*;
use vstd::arithmetic::div_mod::*;
use vstd::bits::*;
verus! {
//@ include lib/base.rs
//@ include lib/lvr.rs

pub proof fn lemma_lvr_nonneg(s: Seq<u64>, lo: int, hi: int)
    requires 0 <= lo, hi <= s.len()
    ensures lvr(s, lo, hi) >= 0
    decreases hi - lo
{ if lo < hi { lemma_lvr_nonneg(s, lo + 1, hi); assert(B * lvr(s, lo + 1, hi) >= 0) by(nonlinear_arith) requires lvr(s, lo + 1, hi) >= 0; } }
pub proof fn lemma_lvr_zero_iff(s: Seq<u64>, lo: int, hi: int)
    requires 0 <= lo, hi <= s.len()
    ensures (lvr(s, lo, hi) == 0) <==> (forall|j: int| lo <= j < hi ==> s[j] == 0)
    decreases hi - lo
{
    if lo < hi {
        lemma_lvr_zero_iff(s, lo + 1, hi);
        lemma_lvr_nonneg(s, lo + 1, hi);
        let r = lvr(s, lo + 1, hi);
        assert(B * r >= 0) by(nonlinear_arith) requires r >= 0;
        if r > 0 { assert(B * r > 0) by(nonlinear_arith) requires r > 0; }
        if r == 0 { assert(B * r == 0) by(nonlinear_arith) requires r == 0; }
        if lvr(s, lo, hi) == 0 {
            assert(s[lo] == 0 && r == 0);
            assert forall|j: int| lo <= j < hi implies s[j] == 0 by { if j > lo { } }
        }
        if forall|j: int| lo <= j < hi ==> s[j] == 0 {
            assert(s[lo] == 0);
            assert(forall|j: int| lo + 1 <= j < hi ==> s[j] == 0);
        }
    }
}
//@ extract src/base_convert.rs struct SpigotLittle
pub struct SpigotLittle<const LIMBS: usize> { pub
    base:  u64, pub
    limbs: [u64; LIMBS],
}
//@ end

// Iterator::next of `impl Iterator for SpigotLittle`, placed in an inherent impl (N15); `Self::Item` is u64 (type Item = u64)
impl<const LIMBS: usize> SpigotLittle<LIMBS> {
//@ extract src/base_convert.rs fn next ctx="Iterator for SpigotLittle" vis=none rewrite="Option < Self :: Item >" => "Option < u64 >" #1
    fn next(&mut self) -> /*+*/(res:/*-*/ Option<u64>/*+*/)
        requires old(self).base >= 2
        ensures
            final(self).base == old(self).base,
            lvr(old(self).limbs@, 0, LIMBS as int) == 0 ==> res is None && final(self).limbs@ == old(self).limbs@,
            lvr(old(self).limbs@, 0, LIMBS as int) != 0 ==> res is Some
                && lvr(old(self).limbs@, 0, LIMBS as int) == lvr(final(self).limbs@, 0, LIMBS as int) * old(self).base as int + res.unwrap() as int
                && res.unwrap() < old(self).base,/*-*/
    {
        // Knuth Algorithm S.
        let mut zero: u64 = 0_u64;
        let mut remainder = 0_u128;
        /*+*/let ghost n = LIMBS as int;
        let ghost old_s = self.limbs@;
        let ghost fin = final(self).limbs@;
        let ghost base = self.base as int;/*-*/
        // OPT: If we keep track of leading zero limbs we can half iterations.
        for limb in /*+*/it:/*-*/ self.limbs.iter_mut().rev()
            /*+*/invariant
                n == LIMBS, fin.len() == n, old_s.len() == n, it.seq().len() == n,
                self.base as int == base, base >= 2,
                forall|j: int| 0 <= j < n ==> *(#[trigger] it.seq()[j]) == old_s[n - 1 - j],
                forall|j: int| 0 <= j < n ==> *final(#[trigger] it.seq()[j]) == fin[n - 1 - j],
                0 <= it.index@ <= n,
                (remainder as int) < base,
                lvr(old_s, n - it.index@, n) == lvr(fin, n - it.index@, n) * base + remainder as int,
                (zero == 0) <==> (forall|j: int| n - it.index@ <= j < n ==> old_s[j] == 0),/*-*/
        {
            /*+*/let ghost k = it.index@;
            let ghost i = n - 1 - k;
            let ghost r_in = remainder as int;
            let ghost u_in = *limb;
            let ghost z_in = zero;/*-*/
            zero |= *limb;
            /*+*/proof {
                assert((z_in | u_in) == 0 <==> (z_in == 0 && u_in == 0)) by(bit_vector);
            }/*-*/
            remainder = (remainder << 64) | u128::from(*limb);
            /*+*/proof {
                let r0 = r_in as u128; let l0 = u_in as u128;
                assert(((r0 << 64) | l0) == r0 * 0x1_0000_0000_0000_0000u128 + l0) by(bit_vector)
                    requires r0 < 0x1_0000_0000_0000_0000u128, l0 < 0x1_0000_0000_0000_0000u128;
                assert(remainder as int == r_in * B + u_in as int);
            }
            let ghost x = remainder as int;/*-*/
            *limb = (remainder / u128::from(self.base)) as u64;
            remainder %= u128::from(self.base);
            /*+*/proof {
                lemma_fundamental_div_mod(x, base);
                lemma_mod_bound(x, base);
                // quotient fits one limb: x < base*B
                assert(x < base * B) by(nonlinear_arith) requires x == r_in * B + u_in as int, r_in <= base - 1, (u_in as int) < B;
                assert(x / base < B) by(nonlinear_arith) requires x == base * (x / base) + x % base, x % base >= 0, x < base * B, base >= 1;
                lemma_div_pos_is_pos(x, base);
                assert(fin[i] as int == x / base);
                let a = lvr(old_s, i + 1, n);
                let f = lvr(fin, i + 1, n);
                assert(lvr(old_s, i, n) == u_in as int + B * a);
                assert(lvr(fin, i, n) == x / base + B * f);
                assert((u_in as int + B * a) == (x / base + B * f) * base + x % base) by(nonlinear_arith)
                    requires a == f * base + r_in, x == r_in * B + u_in as int, x == base * (x / base) + x % base;
            }/*-*/
        }
        /*+*/proof {
            assert(final(self).limbs@ == fin);
            lemma_lvr_zero_iff(old_s, 0, n);
            if zero == 0 {
                // old value 0 ==> quotient limbs 0 and remainder 0, i.e. unchanged
                lemma_lvr_nonneg(fin, 0, n);
                assert(lvr(fin, 0, n) * base + remainder as int == 0);
                assert(lvr(fin, 0, n) == 0 && remainder == 0) by(nonlinear_arith)
                    requires lvr(fin, 0, n) * base + remainder as int == 0, lvr(fin, 0, n) >= 0, remainder as int >= 0, base >= 2;
                lemma_lvr_zero_iff(fin, 0, n);
                assert(fin =~= old_s);
            }
        }/*-*/
        if zero == 0 {
            None
        } else {
            Some(remainder as u64)
        }
    }
//@ end
}

} // verus!
fn main() {}

// unit cmpord: src/cmp.rs - Ord::cmp and PartialOrd::partial_cmp of Uint order values as the integers they denote  (C04; justifies the comparison contract of lib/uint_ops.rs)
#![allow(non_snake_case)]
use vstd::prelude::*;
use vstd::arithmetic::power::*;
use vstd::arithmetic::power2::*;
use vstd::arithmetic::mul::*;
use vstd::arithmetic::div_mod::*;
use vstd::bits::*;
use core::cmp::Ordering;
verus! {
//@ include lib/base.rs
//@ include lib/lvr.rs

//@ extract src/lib.rs struct Uint
pub struct Uint<const BITS: usize, const LIMBS: usize> { pub
    limbs: [u64; LIMBS],
}
//@ end

//@ include lib/uint_spec.rs

pub open spec fn ord_of(a: int, b: int) -> Ordering {
    if a < b { Ordering::Less } else if a == b { Ordering::Equal } else { Ordering::Greater }
}

//@ import kernels cmp
pub mod algorithms { pub use super::cmp; }

impl<const BITS: usize, const LIMBS: usize> Uint<BITS, LIMBS> {
//@ import core as_limbs

//@ extract src/cmp.rs fn cmp ctx="OrdforUint" vis=none as=Ord__cmp rewrite="crate :: algorithms :: cmp" => "algorithms::cmp" #1
    fn Ord__cmp(&self, rhs: &Self) -> /*+*/(r:/*-*/ Ordering/*+*/)
        ensures r == ord_of(self.val() as int, rhs.val() as int)/*-*/
    {
        /*+*/proof { lemma_lvr_is_lv(self.limbs@, LIMBS as nat); lemma_lvr_is_lv(rhs.limbs@, LIMBS as nat); }/*-*/
        algorithms::cmp(self.as_limbs(), rhs.as_limbs())
    }
//@ end

//@ extract src/cmp.rs fn partial_cmp ctx="PartialOrdforUint" vis=none as=PartialOrd__partial_cmp rewrite="self . cmp ( other )" => "self.Ord__cmp(other)" #1
    fn PartialOrd__partial_cmp(&self, other: &Self) -> /*+*/(r:/*-*/ Option<Ordering>/*+*/)
        ensures r == Some(ord_of(self.val() as int, other.val() as int))/*-*/
    {
        Some(self.Ord__cmp(other))
    }
//@ end

    // The derived PartialEq (`self.limbs == other.limbs` in rustc's expansion) is not proved here: Verus has no specification of
    // `==` on `[u64; N]`; that limb-wise equality is value equality for canonical values is lemma_eq_iff_val (lib/uint_spec.rs).
}

} // verus!
fn main() {}

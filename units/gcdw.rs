// unit gcdw: src/gcd.rs + src/modular.rs — Uint::gcd, Uint::lcm, Uint::gcd_extended, Uint::inv_mod over the proved contracts of
// algorithms::{gcd, gcd_extended, inv_mod}, checked_div and checked_mul  (C12, C10)
#![allow(non_snake_case)]
use vstd::prelude::*;
use vstd::arithmetic::power2::*;
use vstd::arithmetic::mul::*;
use vstd::arithmetic::div_mod::*;
use vstd::bits::*;
use vstd::std_specs::cmp::*;
use vstd::std_specs::ops::*;
verus! {
//@ include lib/base.rs

//@ extract src/lib.rs struct Uint
pub struct Uint<const BITS: usize, const LIMBS: usize> { pub
    limbs: [u64; LIMBS],
}
//@ end

//@ include lib/uint_spec.rs
//@ include lib/uint_ops.rs
//@ extract src/algorithms/gcd/matrix.rs struct Matrix
pub struct Matrix(pub u64, pub u64, pub u64, pub u64, pub bool);
//@ end
pub type LehmerMatrix = Matrix;
//@ include lib/lehmer_spec.rs
//@ include lib/lehmer.rs
impl Matrix {
//@ import lehmer IDENTITY
//@ import lehmer apply
//@ import lehmer from
}
//@ include lib/sgcd.rs

//@ import gcd gcd
//@ import gcdext gcd_extended
//@ import gcdext inv_mod
pub mod algorithms { pub use super::gcd; pub use super::gcd_extended; pub use super::inv_mod; }

// gcd of an unordered pair, and the least common multiple as the property states it
pub open spec fn ugcd(a: nat, b: nat) -> nat { if a >= b { sgcd(a, b) } else { sgcd(b, a) } }
pub open spec fn slcm(a: nat, b: nat) -> nat { if a == 0 || b == 0 { 0 } else { (a * b) / ugcd(a, b) } }

pub proof fn lemma_ugcd_divides(a: nat, b: nat)
    ensures divides(ugcd(a, b), a), divides(ugcd(a, b), b)
{
    if a >= b { lemma_sgcd_divides(a, b); } else { lemma_sgcd_divides(b, a); }
}

impl<const BITS: usize, const LIMBS: usize> Uint<BITS, LIMBS> {
//@ import core ZERO
//@ import divw checked_div
//@ import mul checked_mul
//@ import mul wrapping_mul
//@ import mul overflowing_mul
//@ import bitlen bit_len
//@ import bitlen leading_zeros
//@ import basics is_zero

//@ extract src/lib.rs fn default ctx=Default as=default_impl
    pub fn default_impl() -> /*+*/(r:/*-*/ Self/*+*/)
        requires Self::sized(), BITS <= usize::MAX - 63
        ensures r.wf(), r.val() == 0/*-*/
    {
        Self::ZERO()
    }
//@ end

//@ extract src/gcd.rs fn gcd
    pub fn gcd(self, other: Self) -> /*+*/(r:/*-*/ Self/*+*/)
        requires self.wf(), other.wf(), BITS <= usize::MAX - 63
        ensures r.wf(), r.val() == ugcd(self.val(), other.val())/*-*/
    {
        algorithms::gcd(self, other)
    }
//@ end

//@ extract src/gcd.rs fn lcm rewrite=".unwrap_or_default()" => ".unwrap_or(Self::default_impl())" #1
    pub fn lcm(self, other: Self) -> /*+*/(r:/*-*/ Option<Self>/*+*/)
        requires self.wf(), other.wf(), BITS <= usize::MAX - 63
        ensures
            r.is_some() <==> slcm(self.val(), other.val()) < pow2(BITS as nat),
            r.is_some() ==> r.unwrap().wf() && r.unwrap().val() == slcm(self.val(), other.val()),/*-*/
    {
        /*+*/let ghost a = self.val(); let ghost b = other.val(); let ghost g = ugcd(a, b);
        proof {
            lemma_ugcd_divides(a, b);
            lemma_pow2_pos(BITS as nat);
            let kb = choose|k: nat| b == mulof(g, k);
            let ka = choose|k: nat| a == mulof(g, k);
            if g == 0 {
                assert(a == 0 && b == 0) by(nonlinear_arith) requires a == g * ka, b == g * kb, g == 0;
                assert(a * 0 == 0) by(nonlinear_arith);
            } else {
                // b / g == kb and a * (b / g) == (a * b) / g
                lemma_div_multiples_vanish(kb as int, g as int);
                assert(g * kb == kb * g) by(nonlinear_arith);
                assert(b / g == kb);
                assert(a * b == g * (a * kb)) by(nonlinear_arith) requires b == g * kb;
                lemma_div_multiples_vanish((a * kb) as int, g as int);
                assert(g * (a * kb) == (a * kb) * g) by(nonlinear_arith);
                assert((a * b) / g == a * kb);
                if a == 0 { assert(0 * kb == 0) by(nonlinear_arith); }
                if b == 0 { assert(kb == 0) by(nonlinear_arith) requires 0 == g * kb, g > 0; assert(a * 0 == 0) by(nonlinear_arith); }
            }
        }/*-*/
        let other = other.checked_div(self.gcd(other)).unwrap_or(Self::default_impl());
        self.checked_mul(other)
    }
//@ end

//@ extract src/gcd.rs fn gcd_extended
    pub fn gcd_extended(self, other: Self) -> /*+*/(r:/*-*/ (Self, Self, Self, bool)/*+*/)
        requires self.wf(), other.wf(), BITS <= usize::MAX - 63
        ensures r.0.wf(), r.1.wf(), r.2.wf(),
            r.0.val() == ugcd(self.val(), other.val()),
            r.3 ==> (self.val() * r.1.val() - other.val() * r.2.val()) % m2(BITS) == r.0.val(),
            !r.3 ==> (other.val() * r.2.val() - self.val() * r.1.val()) % m2(BITS) == r.0.val(),/*-*/
    {
        algorithms::gcd_extended(self, other)
    }
//@ end

//@ extract src/modular.rs fn inv_mod
    pub fn inv_mod(self, modulus: Self) -> /*+*/(r:/*-*/ Option<Self>/*+*/)
        requires self.wf(), modulus.wf(), BITS <= usize::MAX - 63
        ensures
            r.is_some() <==> (modulus.val() >= 2 && sgcd(self.val(), modulus.val()) == 1),
            r.is_some() ==> r.unwrap().wf() && r.unwrap().val() < modulus.val()
                && (self.val() * r.unwrap().val()) % modulus.val() == 1,/*-*/
    {
        algorithms::inv_mod(self, modulus)
    }
//@ end
}

} // verus!
fn main() {}

// unit forward_shift: the shift operator impls generated for each primitive amount type (src/bits.rs impl_shift!) forward to
// wrapping_shl / wrapping_shr with the amount cast to usize  (C05, C20)
// GENERATED skeleton (vf/genforward.py main_shift) - the item bodies are re-extracted from the macro-expanded crate on every run.
// N15 places each trait-impl method in an inherent impl under a mangled name; the nested operator uses inside the `&T` and
// compound-assignment forms (`<Self>::shl(self, *rhs)`, `*self << rhs`) are resolved by hand to the impl rustc's trait
// selection picks from the operand types (declared rewrites, listed per item).
#![allow(non_snake_case, non_camel_case_types)]
use vstd::prelude::*;
verus! {
//@ extract src/lib.rs struct Uint
pub struct Uint<const BITS: usize, const LIMBS: usize> { pub
    limbs: [u64; LIMBS],
}
//@ end
impl<const BITS: usize, const LIMBS: usize> Clone for Uint<BITS, LIMBS> { fn clone(&self) -> (r: Self) ensures r == *self { Uint { limbs: self.limbs } } }
impl<const BITS: usize, const LIMBS: usize> Copy for Uint<BITS, LIMBS> {}

pub uninterp spec fn spec_wrapping_shl<const BITS: usize, const LIMBS: usize>(a: Uint<BITS, LIMBS>, p0: usize) -> Uint<BITS, LIMBS>;
pub uninterp spec fn spec_wrapping_shr<const BITS: usize, const LIMBS: usize>(a: Uint<BITS, LIMBS>, p0: usize) -> Uint<BITS, LIMBS>;

impl<const BITS: usize, const LIMBS: usize> Uint<BITS, LIMBS> {
    #[verifier::external_body]
    pub fn wrapping_shl(self, rhs: usize) -> (r: Self)
        ensures r == spec_wrapping_shl(self, rhs)
    { unimplemented!() }
    #[verifier::external_body]
    pub fn wrapping_shr(self, rhs: usize) -> (r: Self)
        ensures r == spec_wrapping_shr(self, rhs)
    { unimplemented!() }

//@ extract expanded fn shl ctx=">Shl<usize>forUint<BITS,LIMBS>" vis=none as=Shl_usize_val__shl rewrite="-> Self :: Output" => "-> Uint<BITS, LIMBS>" #1
    fn Shl_usize_val__shl(self, rhs: usize) -> /*+*/(r:/*-*/ Uint<BITS, LIMBS>/*+*/)
        ensures r == spec_wrapping_shl(self, rhs as usize)/*-*/
    {
            self.wrapping_shl(rhs as usize)
        }
//@ end
//@ extract expanded fn shl ctx=">Shl<&usize>forUint<BITS,LIMBS>" vis=none as=Shl_usize_ref__shl rewrite="-> Self :: Output" => "-> Uint<BITS, LIMBS>" #1 rewrite="< Self > :: shl ( self , * rhs )" => "Self::Shl_usize_val__shl(self, *rhs)" #? rewrite="< Self > :: shr ( self , * rhs )" => "Self::Shr_usize_val__shr(self, *rhs)" #?
    fn Shl_usize_ref__shl(self, rhs: &usize) -> /*+*/(r:/*-*/ Uint<BITS, LIMBS>/*+*/)
        ensures r == spec_wrapping_shl(self, *rhs as usize)/*-*/
    { Self :: Shl_usize_val__shl ( self , * rhs ) }
//@ end
//@ extract expanded fn shl_assign ctx=">ShlAssign<usize>forUint<BITS,LIMBS>" vis=none as=ShlAssign_usize_val__shl_assign rewrite="* self << rhs" => "Self::Shl_usize_val__shl(*self, rhs)" #? rewrite="* self >> rhs" => "Self::Shr_usize_val__shr(*self, rhs)" #?
    fn ShlAssign_usize_val__shl_assign(&mut self, rhs: usize)
        /*+*/ensures *final(self) == spec_wrapping_shl(*old(self), rhs as usize)/*-*/
    { *self = Self :: Shl_usize_val__shl ( * self , rhs ); }
//@ end
//@ extract expanded fn shl_assign ctx=">ShlAssign<&usize>forUint<BITS,LIMBS>" vis=none as=ShlAssign_usize_ref__shl_assign rewrite="* self << rhs" => "Self::Shl_usize_ref__shl(*self, rhs)" #? rewrite="* self >> rhs" => "Self::Shr_usize_ref__shr(*self, rhs)" #?
    fn ShlAssign_usize_ref__shl_assign(&mut self, rhs: &usize)
        /*+*/ensures *final(self) == spec_wrapping_shl(*old(self), *rhs as usize)/*-*/
    { *self = Self :: Shl_usize_ref__shl ( * self , rhs ); }
//@ end
//@ extract expanded fn shr ctx=">Shr<usize>forUint<BITS,LIMBS>" vis=none as=Shr_usize_val__shr rewrite="-> Self :: Output" => "-> Uint<BITS, LIMBS>" #1
    fn Shr_usize_val__shr(self, rhs: usize) -> /*+*/(r:/*-*/ Uint<BITS, LIMBS>/*+*/)
        ensures r == spec_wrapping_shr(self, rhs as usize)/*-*/
    {
            self.wrapping_shr(rhs as usize)
        }
//@ end
//@ extract expanded fn shr ctx=">Shr<&usize>forUint<BITS,LIMBS>" vis=none as=Shr_usize_ref__shr rewrite="-> Self :: Output" => "-> Uint<BITS, LIMBS>" #1 rewrite="< Self > :: shl ( self , * rhs )" => "Self::Shl_usize_val__shl(self, *rhs)" #? rewrite="< Self > :: shr ( self , * rhs )" => "Self::Shr_usize_val__shr(self, *rhs)" #?
    fn Shr_usize_ref__shr(self, rhs: &usize) -> /*+*/(r:/*-*/ Uint<BITS, LIMBS>/*+*/)
        ensures r == spec_wrapping_shr(self, *rhs as usize)/*-*/
    { Self :: Shl_usize_val__shl ( self , * rhs ) }
//@ end
//@ extract expanded fn shr_assign ctx=">ShrAssign<usize>forUint<BITS,LIMBS>" vis=none as=ShrAssign_usize_val__shr_assign rewrite="* self << rhs" => "Self::Shl_usize_val__shl(*self, rhs)" #? rewrite="* self >> rhs" => "Self::Shr_usize_val__shr(*self, rhs)" #?
    fn ShrAssign_usize_val__shr_assign(&mut self, rhs: usize)
        /*+*/ensures *final(self) == spec_wrapping_shr(*old(self), rhs as usize)/*-*/
    { *self = Self :: Shr_usize_val__shr ( * self , rhs ); }
//@ end
//@ extract expanded fn shr_assign ctx=">ShrAssign<&usize>forUint<BITS,LIMBS>" vis=none as=ShrAssign_usize_ref__shr_assign rewrite="* self << rhs" => "Self::Shl_usize_ref__shl(*self, rhs)" #? rewrite="* self >> rhs" => "Self::Shr_usize_ref__shr(*self, rhs)" #?
    fn ShrAssign_usize_ref__shr_assign(&mut self, rhs: &usize)
        /*+*/ensures *final(self) == spec_wrapping_shr(*old(self), *rhs as usize)/*-*/
    { *self = Self :: Shr_usize_ref__shr ( * self , rhs ); }
//@ end
//@ extract expanded fn shl ctx=">Shl<u8>forUint<BITS,LIMBS>" vis=none as=Shl_u8_val__shl rewrite="-> Self :: Output" => "-> Uint<BITS, LIMBS>" #1
    fn Shl_u8_val__shl(self, rhs: u8) -> /*+*/(r:/*-*/ Uint<BITS, LIMBS>/*+*/)
        ensures r == spec_wrapping_shl(self, rhs as usize)/*-*/
    {
            self.wrapping_shl(rhs as usize)
        }
//@ end
//@ extract expanded fn shl ctx=">Shl<&u8>forUint<BITS,LIMBS>" vis=none as=Shl_u8_ref__shl rewrite="-> Self :: Output" => "-> Uint<BITS, LIMBS>" #1 rewrite="< Self > :: shl ( self , * rhs )" => "Self::Shl_u8_val__shl(self, *rhs)" #? rewrite="< Self > :: shr ( self , * rhs )" => "Self::Shr_u8_val__shr(self, *rhs)" #?
    fn Shl_u8_ref__shl(self, rhs: &u8) -> /*+*/(r:/*-*/ Uint<BITS, LIMBS>/*+*/)
        ensures r == spec_wrapping_shl(self, *rhs as usize)/*-*/
    { Self :: Shl_u8_val__shl ( self , * rhs ) }
//@ end
//@ extract expanded fn shl_assign ctx=">ShlAssign<u8>forUint<BITS,LIMBS>" vis=none as=ShlAssign_u8_val__shl_assign rewrite="* self << rhs" => "Self::Shl_u8_val__shl(*self, rhs)" #? rewrite="* self >> rhs" => "Self::Shr_u8_val__shr(*self, rhs)" #?
    fn ShlAssign_u8_val__shl_assign(&mut self, rhs: u8)
        /*+*/ensures *final(self) == spec_wrapping_shl(*old(self), rhs as usize)/*-*/
    { *self = Self :: Shl_u8_val__shl ( * self , rhs ); }
//@ end
//@ extract expanded fn shl_assign ctx=">ShlAssign<&u8>forUint<BITS,LIMBS>" vis=none as=ShlAssign_u8_ref__shl_assign rewrite="* self << rhs" => "Self::Shl_u8_ref__shl(*self, rhs)" #? rewrite="* self >> rhs" => "Self::Shr_u8_ref__shr(*self, rhs)" #?
    fn ShlAssign_u8_ref__shl_assign(&mut self, rhs: &u8)
        /*+*/ensures *final(self) == spec_wrapping_shl(*old(self), *rhs as usize)/*-*/
    { *self = Self :: Shl_u8_ref__shl ( * self , rhs ); }
//@ end
//@ extract expanded fn shr ctx=">Shr<u8>forUint<BITS,LIMBS>" vis=none as=Shr_u8_val__shr rewrite="-> Self :: Output" => "-> Uint<BITS, LIMBS>" #1
    fn Shr_u8_val__shr(self, rhs: u8) -> /*+*/(r:/*-*/ Uint<BITS, LIMBS>/*+*/)
        ensures r == spec_wrapping_shr(self, rhs as usize)/*-*/
    {
            self.wrapping_shr(rhs as usize)
        }
//@ end
//@ extract expanded fn shr ctx=">Shr<&u8>forUint<BITS,LIMBS>" vis=none as=Shr_u8_ref__shr rewrite="-> Self :: Output" => "-> Uint<BITS, LIMBS>" #1 rewrite="< Self > :: shl ( self , * rhs )" => "Self::Shl_u8_val__shl(self, *rhs)" #? rewrite="< Self > :: shr ( self , * rhs )" => "Self::Shr_u8_val__shr(self, *rhs)" #?
    fn Shr_u8_ref__shr(self, rhs: &u8) -> /*+*/(r:/*-*/ Uint<BITS, LIMBS>/*+*/)
        ensures r == spec_wrapping_shr(self, *rhs as usize)/*-*/
    { Self :: Shl_u8_val__shl ( self , * rhs ) }
//@ end
//@ extract expanded fn shr_assign ctx=">ShrAssign<u8>forUint<BITS,LIMBS>" vis=none as=ShrAssign_u8_val__shr_assign rewrite="* self << rhs" => "Self::Shl_u8_val__shl(*self, rhs)" #? rewrite="* self >> rhs" => "Self::Shr_u8_val__shr(*self, rhs)" #?
    fn ShrAssign_u8_val__shr_assign(&mut self, rhs: u8)
        /*+*/ensures *final(self) == spec_wrapping_shr(*old(self), rhs as usize)/*-*/
    { *self = Self :: Shr_u8_val__shr ( * self , rhs ); }
//@ end
//@ extract expanded fn shr_assign ctx=">ShrAssign<&u8>forUint<BITS,LIMBS>" vis=none as=ShrAssign_u8_ref__shr_assign rewrite="* self << rhs" => "Self::Shl_u8_ref__shl(*self, rhs)" #? rewrite="* self >> rhs" => "Self::Shr_u8_ref__shr(*self, rhs)" #?
    fn ShrAssign_u8_ref__shr_assign(&mut self, rhs: &u8)
        /*+*/ensures *final(self) == spec_wrapping_shr(*old(self), *rhs as usize)/*-*/
    { *self = Self :: Shr_u8_ref__shr ( * self , rhs ); }
//@ end
//@ extract expanded fn shl ctx=">Shl<u16>forUint<BITS,LIMBS>" vis=none as=Shl_u16_val__shl rewrite="-> Self :: Output" => "-> Uint<BITS, LIMBS>" #1
    fn Shl_u16_val__shl(self, rhs: u16) -> /*+*/(r:/*-*/ Uint<BITS, LIMBS>/*+*/)
        ensures r == spec_wrapping_shl(self, rhs as usize)/*-*/
    {
            self.wrapping_shl(rhs as usize)
        }
//@ end
//@ extract expanded fn shl ctx=">Shl<&u16>forUint<BITS,LIMBS>" vis=none as=Shl_u16_ref__shl rewrite="-> Self :: Output" => "-> Uint<BITS, LIMBS>" #1 rewrite="< Self > :: shl ( self , * rhs )" => "Self::Shl_u16_val__shl(self, *rhs)" #? rewrite="< Self > :: shr ( self , * rhs )" => "Self::Shr_u16_val__shr(self, *rhs)" #?
    fn Shl_u16_ref__shl(self, rhs: &u16) -> /*+*/(r:/*-*/ Uint<BITS, LIMBS>/*+*/)
        ensures r == spec_wrapping_shl(self, *rhs as usize)/*-*/
    { Self :: Shl_u16_val__shl ( self , * rhs ) }
//@ end
//@ extract expanded fn shl_assign ctx=">ShlAssign<u16>forUint<BITS,LIMBS>" vis=none as=ShlAssign_u16_val__shl_assign rewrite="* self << rhs" => "Self::Shl_u16_val__shl(*self, rhs)" #? rewrite="* self >> rhs" => "Self::Shr_u16_val__shr(*self, rhs)" #?
    fn ShlAssign_u16_val__shl_assign(&mut self, rhs: u16)
        /*+*/ensures *final(self) == spec_wrapping_shl(*old(self), rhs as usize)/*-*/
    { *self = Self :: Shl_u16_val__shl ( * self , rhs ); }
//@ end
//@ extract expanded fn shl_assign ctx=">ShlAssign<&u16>forUint<BITS,LIMBS>" vis=none as=ShlAssign_u16_ref__shl_assign rewrite="* self << rhs" => "Self::Shl_u16_ref__shl(*self, rhs)" #? rewrite="* self >> rhs" => "Self::Shr_u16_ref__shr(*self, rhs)" #?
    fn ShlAssign_u16_ref__shl_assign(&mut self, rhs: &u16)
        /*+*/ensures *final(self) == spec_wrapping_shl(*old(self), *rhs as usize)/*-*/
    { *self = Self :: Shl_u16_ref__shl ( * self , rhs ); }
//@ end
//@ extract expanded fn shr ctx=">Shr<u16>forUint<BITS,LIMBS>" vis=none as=Shr_u16_val__shr rewrite="-> Self :: Output" => "-> Uint<BITS, LIMBS>" #1
    fn Shr_u16_val__shr(self, rhs: u16) -> /*+*/(r:/*-*/ Uint<BITS, LIMBS>/*+*/)
        ensures r == spec_wrapping_shr(self, rhs as usize)/*-*/
    {
            self.wrapping_shr(rhs as usize)
        }
//@ end
//@ extract expanded fn shr ctx=">Shr<&u16>forUint<BITS,LIMBS>" vis=none as=Shr_u16_ref__shr rewrite="-> Self :: Output" => "-> Uint<BITS, LIMBS>" #1 rewrite="< Self > :: shl ( self , * rhs )" => "Self::Shl_u16_val__shl(self, *rhs)" #? rewrite="< Self > :: shr ( self , * rhs )" => "Self::Shr_u16_val__shr(self, *rhs)" #?
    fn Shr_u16_ref__shr(self, rhs: &u16) -> /*+*/(r:/*-*/ Uint<BITS, LIMBS>/*+*/)
        ensures r == spec_wrapping_shr(self, *rhs as usize)/*-*/
    { Self :: Shl_u16_val__shl ( self , * rhs ) }
//@ end
//@ extract expanded fn shr_assign ctx=">ShrAssign<u16>forUint<BITS,LIMBS>" vis=none as=ShrAssign_u16_val__shr_assign rewrite="* self << rhs" => "Self::Shl_u16_val__shl(*self, rhs)" #? rewrite="* self >> rhs" => "Self::Shr_u16_val__shr(*self, rhs)" #?
    fn ShrAssign_u16_val__shr_assign(&mut self, rhs: u16)
        /*+*/ensures *final(self) == spec_wrapping_shr(*old(self), rhs as usize)/*-*/
    { *self = Self :: Shr_u16_val__shr ( * self , rhs ); }
//@ end
//@ extract expanded fn shr_assign ctx=">ShrAssign<&u16>forUint<BITS,LIMBS>" vis=none as=ShrAssign_u16_ref__shr_assign rewrite="* self << rhs" => "Self::Shl_u16_ref__shl(*self, rhs)" #? rewrite="* self >> rhs" => "Self::Shr_u16_ref__shr(*self, rhs)" #?
    fn ShrAssign_u16_ref__shr_assign(&mut self, rhs: &u16)
        /*+*/ensures *final(self) == spec_wrapping_shr(*old(self), *rhs as usize)/*-*/
    { *self = Self :: Shr_u16_ref__shr ( * self , rhs ); }
//@ end
//@ extract expanded fn shl ctx=">Shl<u32>forUint<BITS,LIMBS>" vis=none as=Shl_u32_val__shl rewrite="-> Self :: Output" => "-> Uint<BITS, LIMBS>" #1
    fn Shl_u32_val__shl(self, rhs: u32) -> /*+*/(r:/*-*/ Uint<BITS, LIMBS>/*+*/)
        ensures r == spec_wrapping_shl(self, rhs as usize)/*-*/
    {
            self.wrapping_shl(rhs as usize)
        }
//@ end
//@ extract expanded fn shl ctx=">Shl<&u32>forUint<BITS,LIMBS>" vis=none as=Shl_u32_ref__shl rewrite="-> Self :: Output" => "-> Uint<BITS, LIMBS>" #1 rewrite="< Self > :: shl ( self , * rhs )" => "Self::Shl_u32_val__shl(self, *rhs)" #? rewrite="< Self > :: shr ( self , * rhs )" => "Self::Shr_u32_val__shr(self, *rhs)" #?
    fn Shl_u32_ref__shl(self, rhs: &u32) -> /*+*/(r:/*-*/ Uint<BITS, LIMBS>/*+*/)
        ensures r == spec_wrapping_shl(self, *rhs as usize)/*-*/
    { Self :: Shl_u32_val__shl ( self , * rhs ) }
//@ end
//@ extract expanded fn shl_assign ctx=">ShlAssign<u32>forUint<BITS,LIMBS>" vis=none as=ShlAssign_u32_val__shl_assign rewrite="* self << rhs" => "Self::Shl_u32_val__shl(*self, rhs)" #? rewrite="* self >> rhs" => "Self::Shr_u32_val__shr(*self, rhs)" #?
    fn ShlAssign_u32_val__shl_assign(&mut self, rhs: u32)
        /*+*/ensures *final(self) == spec_wrapping_shl(*old(self), rhs as usize)/*-*/
    { *self = Self :: Shl_u32_val__shl ( * self , rhs ); }
//@ end
//@ extract expanded fn shl_assign ctx=">ShlAssign<&u32>forUint<BITS,LIMBS>" vis=none as=ShlAssign_u32_ref__shl_assign rewrite="* self << rhs" => "Self::Shl_u32_ref__shl(*self, rhs)" #? rewrite="* self >> rhs" => "Self::Shr_u32_ref__shr(*self, rhs)" #?
    fn ShlAssign_u32_ref__shl_assign(&mut self, rhs: &u32)
        /*+*/ensures *final(self) == spec_wrapping_shl(*old(self), *rhs as usize)/*-*/
    { *self = Self :: Shl_u32_ref__shl ( * self , rhs ); }
//@ end
//@ extract expanded fn shr ctx=">Shr<u32>forUint<BITS,LIMBS>" vis=none as=Shr_u32_val__shr rewrite="-> Self :: Output" => "-> Uint<BITS, LIMBS>" #1
    fn Shr_u32_val__shr(self, rhs: u32) -> /*+*/(r:/*-*/ Uint<BITS, LIMBS>/*+*/)
        ensures r == spec_wrapping_shr(self, rhs as usize)/*-*/
    {
            self.wrapping_shr(rhs as usize)
        }
//@ end
//@ extract expanded fn shr ctx=">Shr<&u32>forUint<BITS,LIMBS>" vis=none as=Shr_u32_ref__shr rewrite="-> Self :: Output" => "-> Uint<BITS, LIMBS>" #1 rewrite="< Self > :: shl ( self , * rhs )" => "Self::Shl_u32_val__shl(self, *rhs)" #? rewrite="< Self > :: shr ( self , * rhs )" => "Self::Shr_u32_val__shr(self, *rhs)" #?
    fn Shr_u32_ref__shr(self, rhs: &u32) -> /*+*/(r:/*-*/ Uint<BITS, LIMBS>/*+*/)
        ensures r == spec_wrapping_shr(self, *rhs as usize)/*-*/
    { Self :: Shl_u32_val__shl ( self , * rhs ) }
//@ end
//@ extract expanded fn shr_assign ctx=">ShrAssign<u32>forUint<BITS,LIMBS>" vis=none as=ShrAssign_u32_val__shr_assign rewrite="* self << rhs" => "Self::Shl_u32_val__shl(*self, rhs)" #? rewrite="* self >> rhs" => "Self::Shr_u32_val__shr(*self, rhs)" #?
    fn ShrAssign_u32_val__shr_assign(&mut self, rhs: u32)
        /*+*/ensures *final(self) == spec_wrapping_shr(*old(self), rhs as usize)/*-*/
    { *self = Self :: Shr_u32_val__shr ( * self , rhs ); }
//@ end
//@ extract expanded fn shr_assign ctx=">ShrAssign<&u32>forUint<BITS,LIMBS>" vis=none as=ShrAssign_u32_ref__shr_assign rewrite="* self << rhs" => "Self::Shl_u32_ref__shl(*self, rhs)" #? rewrite="* self >> rhs" => "Self::Shr_u32_ref__shr(*self, rhs)" #?
    fn ShrAssign_u32_ref__shr_assign(&mut self, rhs: &u32)
        /*+*/ensures *final(self) == spec_wrapping_shr(*old(self), *rhs as usize)/*-*/
    { *self = Self :: Shr_u32_ref__shr ( * self , rhs ); }
//@ end
//@ extract expanded fn shl ctx=">Shl<u64>forUint<BITS,LIMBS>" vis=none as=Shl_u64_val__shl rewrite="-> Self :: Output" => "-> Uint<BITS, LIMBS>" #1
    fn Shl_u64_val__shl(self, rhs: u64) -> /*+*/(r:/*-*/ Uint<BITS, LIMBS>/*+*/)
        ensures r == spec_wrapping_shl(self, rhs as usize)/*-*/
    {
            self.wrapping_shl(rhs as usize)
        }
//@ end
//@ extract expanded fn shl ctx=">Shl<&u64>forUint<BITS,LIMBS>" vis=none as=Shl_u64_ref__shl rewrite="-> Self :: Output" => "-> Uint<BITS, LIMBS>" #1 rewrite="< Self > :: shl ( self , * rhs )" => "Self::Shl_u64_val__shl(self, *rhs)" #? rewrite="< Self > :: shr ( self , * rhs )" => "Self::Shr_u64_val__shr(self, *rhs)" #?
    fn Shl_u64_ref__shl(self, rhs: &u64) -> /*+*/(r:/*-*/ Uint<BITS, LIMBS>/*+*/)
        ensures r == spec_wrapping_shl(self, *rhs as usize)/*-*/
    { Self :: Shl_u64_val__shl ( self , * rhs ) }
//@ end
//@ extract expanded fn shl_assign ctx=">ShlAssign<u64>forUint<BITS,LIMBS>" vis=none as=ShlAssign_u64_val__shl_assign rewrite="* self << rhs" => "Self::Shl_u64_val__shl(*self, rhs)" #? rewrite="* self >> rhs" => "Self::Shr_u64_val__shr(*self, rhs)" #?
    fn ShlAssign_u64_val__shl_assign(&mut self, rhs: u64)
        /*+*/ensures *final(self) == spec_wrapping_shl(*old(self), rhs as usize)/*-*/
    { *self = Self :: Shl_u64_val__shl ( * self , rhs ); }
//@ end
//@ extract expanded fn shl_assign ctx=">ShlAssign<&u64>forUint<BITS,LIMBS>" vis=none as=ShlAssign_u64_ref__shl_assign rewrite="* self << rhs" => "Self::Shl_u64_ref__shl(*self, rhs)" #? rewrite="* self >> rhs" => "Self::Shr_u64_ref__shr(*self, rhs)" #?
    fn ShlAssign_u64_ref__shl_assign(&mut self, rhs: &u64)
        /*+*/ensures *final(self) == spec_wrapping_shl(*old(self), *rhs as usize)/*-*/
    { *self = Self :: Shl_u64_ref__shl ( * self , rhs ); }
//@ end
//@ extract expanded fn shr ctx=">Shr<u64>forUint<BITS,LIMBS>" vis=none as=Shr_u64_val__shr rewrite="-> Self :: Output" => "-> Uint<BITS, LIMBS>" #1
    fn Shr_u64_val__shr(self, rhs: u64) -> /*+*/(r:/*-*/ Uint<BITS, LIMBS>/*+*/)
        ensures r == spec_wrapping_shr(self, rhs as usize)/*-*/
    {
            self.wrapping_shr(rhs as usize)
        }
//@ end
//@ extract expanded fn shr ctx=">Shr<&u64>forUint<BITS,LIMBS>" vis=none as=Shr_u64_ref__shr rewrite="-> Self :: Output" => "-> Uint<BITS, LIMBS>" #1 rewrite="< Self > :: shl ( self , * rhs )" => "Self::Shl_u64_val__shl(self, *rhs)" #? rewrite="< Self > :: shr ( self , * rhs )" => "Self::Shr_u64_val__shr(self, *rhs)" #?
    fn Shr_u64_ref__shr(self, rhs: &u64) -> /*+*/(r:/*-*/ Uint<BITS, LIMBS>/*+*/)
        ensures r == spec_wrapping_shr(self, *rhs as usize)/*-*/
    { Self :: Shl_u64_val__shl ( self , * rhs ) }
//@ end
//@ extract expanded fn shr_assign ctx=">ShrAssign<u64>forUint<BITS,LIMBS>" vis=none as=ShrAssign_u64_val__shr_assign rewrite="* self << rhs" => "Self::Shl_u64_val__shl(*self, rhs)" #? rewrite="* self >> rhs" => "Self::Shr_u64_val__shr(*self, rhs)" #?
    fn ShrAssign_u64_val__shr_assign(&mut self, rhs: u64)
        /*+*/ensures *final(self) == spec_wrapping_shr(*old(self), rhs as usize)/*-*/
    { *self = Self :: Shr_u64_val__shr ( * self , rhs ); }
//@ end
//@ extract expanded fn shr_assign ctx=">ShrAssign<&u64>forUint<BITS,LIMBS>" vis=none as=ShrAssign_u64_ref__shr_assign rewrite="* self << rhs" => "Self::Shl_u64_ref__shl(*self, rhs)" #? rewrite="* self >> rhs" => "Self::Shr_u64_ref__shr(*self, rhs)" #?
    fn ShrAssign_u64_ref__shr_assign(&mut self, rhs: &u64)
        /*+*/ensures *final(self) == spec_wrapping_shr(*old(self), *rhs as usize)/*-*/
    { *self = Self :: Shr_u64_ref__shr ( * self , rhs ); }
//@ end
//@ extract expanded fn shl ctx=">Shl<isize>forUint<BITS,LIMBS>" vis=none as=Shl_isize_val__shl rewrite="-> Self :: Output" => "-> Uint<BITS, LIMBS>" #1
    fn Shl_isize_val__shl(self, rhs: isize) -> /*+*/(r:/*-*/ Uint<BITS, LIMBS>/*+*/)
        ensures rhs >= 0 ==> r == spec_wrapping_shl(self, rhs as usize)/*-*/
    {
            self.wrapping_shl(rhs as usize)
        }
//@ end
//@ extract expanded fn shl ctx=">Shl<&isize>forUint<BITS,LIMBS>" vis=none as=Shl_isize_ref__shl rewrite="-> Self :: Output" => "-> Uint<BITS, LIMBS>" #1 rewrite="< Self > :: shl ( self , * rhs )" => "Self::Shl_isize_val__shl(self, *rhs)" #? rewrite="< Self > :: shr ( self , * rhs )" => "Self::Shr_isize_val__shr(self, *rhs)" #?
    fn Shl_isize_ref__shl(self, rhs: &isize) -> /*+*/(r:/*-*/ Uint<BITS, LIMBS>/*+*/)
        ensures *rhs >= 0 ==> r == spec_wrapping_shl(self, *rhs as usize)/*-*/
    { Self :: Shl_isize_val__shl ( self , * rhs ) }
//@ end
//@ extract expanded fn shl_assign ctx=">ShlAssign<isize>forUint<BITS,LIMBS>" vis=none as=ShlAssign_isize_val__shl_assign rewrite="* self << rhs" => "Self::Shl_isize_val__shl(*self, rhs)" #? rewrite="* self >> rhs" => "Self::Shr_isize_val__shr(*self, rhs)" #?
    fn ShlAssign_isize_val__shl_assign(&mut self, rhs: isize)
        /*+*/ensures rhs >= 0 ==> *final(self) == spec_wrapping_shl(*old(self), rhs as usize)/*-*/
    { *self = Self :: Shl_isize_val__shl ( * self , rhs ); }
//@ end
//@ extract expanded fn shl_assign ctx=">ShlAssign<&isize>forUint<BITS,LIMBS>" vis=none as=ShlAssign_isize_ref__shl_assign rewrite="* self << rhs" => "Self::Shl_isize_ref__shl(*self, rhs)" #? rewrite="* self >> rhs" => "Self::Shr_isize_ref__shr(*self, rhs)" #?
    fn ShlAssign_isize_ref__shl_assign(&mut self, rhs: &isize)
        /*+*/ensures *rhs >= 0 ==> *final(self) == spec_wrapping_shl(*old(self), *rhs as usize)/*-*/
    { *self = Self :: Shl_isize_ref__shl ( * self , rhs ); }
//@ end
//@ extract expanded fn shr ctx=">Shr<isize>forUint<BITS,LIMBS>" vis=none as=Shr_isize_val__shr rewrite="-> Self :: Output" => "-> Uint<BITS, LIMBS>" #1
    fn Shr_isize_val__shr(self, rhs: isize) -> /*+*/(r:/*-*/ Uint<BITS, LIMBS>/*+*/)
        ensures rhs >= 0 ==> r == spec_wrapping_shr(self, rhs as usize)/*-*/
    {
            self.wrapping_shr(rhs as usize)
        }
//@ end
//@ extract expanded fn shr ctx=">Shr<&isize>forUint<BITS,LIMBS>" vis=none as=Shr_isize_ref__shr rewrite="-> Self :: Output" => "-> Uint<BITS, LIMBS>" #1 rewrite="< Self > :: shl ( self , * rhs )" => "Self::Shl_isize_val__shl(self, *rhs)" #? rewrite="< Self > :: shr ( self , * rhs )" => "Self::Shr_isize_val__shr(self, *rhs)" #?
    fn Shr_isize_ref__shr(self, rhs: &isize) -> /*+*/(r:/*-*/ Uint<BITS, LIMBS>/*+*/)
        ensures *rhs >= 0 ==> r == spec_wrapping_shr(self, *rhs as usize)/*-*/
    { Self :: Shl_isize_val__shl ( self , * rhs ) }
//@ end
//@ extract expanded fn shr_assign ctx=">ShrAssign<isize>forUint<BITS,LIMBS>" vis=none as=ShrAssign_isize_val__shr_assign rewrite="* self << rhs" => "Self::Shl_isize_val__shl(*self, rhs)" #? rewrite="* self >> rhs" => "Self::Shr_isize_val__shr(*self, rhs)" #?
    fn ShrAssign_isize_val__shr_assign(&mut self, rhs: isize)
        /*+*/ensures rhs >= 0 ==> *final(self) == spec_wrapping_shr(*old(self), rhs as usize)/*-*/
    { *self = Self :: Shr_isize_val__shr ( * self , rhs ); }
//@ end
//@ extract expanded fn shr_assign ctx=">ShrAssign<&isize>forUint<BITS,LIMBS>" vis=none as=ShrAssign_isize_ref__shr_assign rewrite="* self << rhs" => "Self::Shl_isize_ref__shl(*self, rhs)" #? rewrite="* self >> rhs" => "Self::Shr_isize_ref__shr(*self, rhs)" #?
    fn ShrAssign_isize_ref__shr_assign(&mut self, rhs: &isize)
        /*+*/ensures *rhs >= 0 ==> *final(self) == spec_wrapping_shr(*old(self), *rhs as usize)/*-*/
    { *self = Self :: Shr_isize_ref__shr ( * self , rhs ); }
//@ end
//@ extract expanded fn shl ctx=">Shl<i8>forUint<BITS,LIMBS>" vis=none as=Shl_i8_val__shl rewrite="-> Self :: Output" => "-> Uint<BITS, LIMBS>" #1
    fn Shl_i8_val__shl(self, rhs: i8) -> /*+*/(r:/*-*/ Uint<BITS, LIMBS>/*+*/)
        ensures rhs >= 0 ==> r == spec_wrapping_shl(self, rhs as usize)/*-*/
    {
            self.wrapping_shl(rhs as usize)
        }
//@ end
//@ extract expanded fn shl ctx=">Shl<&i8>forUint<BITS,LIMBS>" vis=none as=Shl_i8_ref__shl rewrite="-> Self :: Output" => "-> Uint<BITS, LIMBS>" #1 rewrite="< Self > :: shl ( self , * rhs )" => "Self::Shl_i8_val__shl(self, *rhs)" #? rewrite="< Self > :: shr ( self , * rhs )" => "Self::Shr_i8_val__shr(self, *rhs)" #?
    fn Shl_i8_ref__shl(self, rhs: &i8) -> /*+*/(r:/*-*/ Uint<BITS, LIMBS>/*+*/)
        ensures *rhs >= 0 ==> r == spec_wrapping_shl(self, *rhs as usize)/*-*/
    { Self :: Shl_i8_val__shl ( self , * rhs ) }
//@ end
//@ extract expanded fn shl_assign ctx=">ShlAssign<i8>forUint<BITS,LIMBS>" vis=none as=ShlAssign_i8_val__shl_assign rewrite="* self << rhs" => "Self::Shl_i8_val__shl(*self, rhs)" #? rewrite="* self >> rhs" => "Self::Shr_i8_val__shr(*self, rhs)" #?
    fn ShlAssign_i8_val__shl_assign(&mut self, rhs: i8)
        /*+*/ensures rhs >= 0 ==> *final(self) == spec_wrapping_shl(*old(self), rhs as usize)/*-*/
    { *self = Self :: Shl_i8_val__shl ( * self , rhs ); }
//@ end
//@ extract expanded fn shl_assign ctx=">ShlAssign<&i8>forUint<BITS,LIMBS>" vis=none as=ShlAssign_i8_ref__shl_assign rewrite="* self << rhs" => "Self::Shl_i8_ref__shl(*self, rhs)" #? rewrite="* self >> rhs" => "Self::Shr_i8_ref__shr(*self, rhs)" #?
    fn ShlAssign_i8_ref__shl_assign(&mut self, rhs: &i8)
        /*+*/ensures *rhs >= 0 ==> *final(self) == spec_wrapping_shl(*old(self), *rhs as usize)/*-*/
    { *self = Self :: Shl_i8_ref__shl ( * self , rhs ); }
//@ end
//@ extract expanded fn shr ctx=">Shr<i8>forUint<BITS,LIMBS>" vis=none as=Shr_i8_val__shr rewrite="-> Self :: Output" => "-> Uint<BITS, LIMBS>" #1
    fn Shr_i8_val__shr(self, rhs: i8) -> /*+*/(r:/*-*/ Uint<BITS, LIMBS>/*+*/)
        ensures rhs >= 0 ==> r == spec_wrapping_shr(self, rhs as usize)/*-*/
    {
            self.wrapping_shr(rhs as usize)
        }
//@ end
//@ extract expanded fn shr ctx=">Shr<&i8>forUint<BITS,LIMBS>" vis=none as=Shr_i8_ref__shr rewrite="-> Self :: Output" => "-> Uint<BITS, LIMBS>" #1 rewrite="< Self > :: shl ( self , * rhs )" => "Self::Shl_i8_val__shl(self, *rhs)" #? rewrite="< Self > :: shr ( self , * rhs )" => "Self::Shr_i8_val__shr(self, *rhs)" #?
    fn Shr_i8_ref__shr(self, rhs: &i8) -> /*+*/(r:/*-*/ Uint<BITS, LIMBS>/*+*/)
        ensures *rhs >= 0 ==> r == spec_wrapping_shr(self, *rhs as usize)/*-*/
    { Self :: Shl_i8_val__shl ( self , * rhs ) }
//@ end
//@ extract expanded fn shr_assign ctx=">ShrAssign<i8>forUint<BITS,LIMBS>" vis=none as=ShrAssign_i8_val__shr_assign rewrite="* self << rhs" => "Self::Shl_i8_val__shl(*self, rhs)" #? rewrite="* self >> rhs" => "Self::Shr_i8_val__shr(*self, rhs)" #?
    fn ShrAssign_i8_val__shr_assign(&mut self, rhs: i8)
        /*+*/ensures rhs >= 0 ==> *final(self) == spec_wrapping_shr(*old(self), rhs as usize)/*-*/
    { *self = Self :: Shr_i8_val__shr ( * self , rhs ); }
//@ end
//@ extract expanded fn shr_assign ctx=">ShrAssign<&i8>forUint<BITS,LIMBS>" vis=none as=ShrAssign_i8_ref__shr_assign rewrite="* self << rhs" => "Self::Shl_i8_ref__shl(*self, rhs)" #? rewrite="* self >> rhs" => "Self::Shr_i8_ref__shr(*self, rhs)" #?
    fn ShrAssign_i8_ref__shr_assign(&mut self, rhs: &i8)
        /*+*/ensures *rhs >= 0 ==> *final(self) == spec_wrapping_shr(*old(self), *rhs as usize)/*-*/
    { *self = Self :: Shr_i8_ref__shr ( * self , rhs ); }
//@ end
//@ extract expanded fn shl ctx=">Shl<i16>forUint<BITS,LIMBS>" vis=none as=Shl_i16_val__shl rewrite="-> Self :: Output" => "-> Uint<BITS, LIMBS>" #1
    fn Shl_i16_val__shl(self, rhs: i16) -> /*+*/(r:/*-*/ Uint<BITS, LIMBS>/*+*/)
        ensures rhs >= 0 ==> r == spec_wrapping_shl(self, rhs as usize)/*-*/
    {
            self.wrapping_shl(rhs as usize)
        }
//@ end
//@ extract expanded fn shl ctx=">Shl<&i16>forUint<BITS,LIMBS>" vis=none as=Shl_i16_ref__shl rewrite="-> Self :: Output" => "-> Uint<BITS, LIMBS>" #1 rewrite="< Self > :: shl ( self , * rhs )" => "Self::Shl_i16_val__shl(self, *rhs)" #? rewrite="< Self > :: shr ( self , * rhs )" => "Self::Shr_i16_val__shr(self, *rhs)" #?
    fn Shl_i16_ref__shl(self, rhs: &i16) -> /*+*/(r:/*-*/ Uint<BITS, LIMBS>/*+*/)
        ensures *rhs >= 0 ==> r == spec_wrapping_shl(self, *rhs as usize)/*-*/
    { Self :: Shl_i16_val__shl ( self , * rhs ) }
//@ end
//@ extract expanded fn shl_assign ctx=">ShlAssign<i16>forUint<BITS,LIMBS>" vis=none as=ShlAssign_i16_val__shl_assign rewrite="* self << rhs" => "Self::Shl_i16_val__shl(*self, rhs)" #? rewrite="* self >> rhs" => "Self::Shr_i16_val__shr(*self, rhs)" #?
    fn ShlAssign_i16_val__shl_assign(&mut self, rhs: i16)
        /*+*/ensures rhs >= 0 ==> *final(self) == spec_wrapping_shl(*old(self), rhs as usize)/*-*/
    { *self = Self :: Shl_i16_val__shl ( * self , rhs ); }
//@ end
//@ extract expanded fn shl_assign ctx=">ShlAssign<&i16>forUint<BITS,LIMBS>" vis=none as=ShlAssign_i16_ref__shl_assign rewrite="* self << rhs" => "Self::Shl_i16_ref__shl(*self, rhs)" #? rewrite="* self >> rhs" => "Self::Shr_i16_ref__shr(*self, rhs)" #?
    fn ShlAssign_i16_ref__shl_assign(&mut self, rhs: &i16)
        /*+*/ensures *rhs >= 0 ==> *final(self) == spec_wrapping_shl(*old(self), *rhs as usize)/*-*/
    { *self = Self :: Shl_i16_ref__shl ( * self , rhs ); }
//@ end
//@ extract expanded fn shr ctx=">Shr<i16>forUint<BITS,LIMBS>" vis=none as=Shr_i16_val__shr rewrite="-> Self :: Output" => "-> Uint<BITS, LIMBS>" #1
    fn Shr_i16_val__shr(self, rhs: i16) -> /*+*/(r:/*-*/ Uint<BITS, LIMBS>/*+*/)
        ensures rhs >= 0 ==> r == spec_wrapping_shr(self, rhs as usize)/*-*/
    {
            self.wrapping_shr(rhs as usize)
        }
//@ end
//@ extract expanded fn shr ctx=">Shr<&i16>forUint<BITS,LIMBS>" vis=none as=Shr_i16_ref__shr rewrite="-> Self :: Output" => "-> Uint<BITS, LIMBS>" #1 rewrite="< Self > :: shl ( self , * rhs )" => "Self::Shl_i16_val__shl(self, *rhs)" #? rewrite="< Self > :: shr ( self , * rhs )" => "Self::Shr_i16_val__shr(self, *rhs)" #?
    fn Shr_i16_ref__shr(self, rhs: &i16) -> /*+*/(r:/*-*/ Uint<BITS, LIMBS>/*+*/)
        ensures *rhs >= 0 ==> r == spec_wrapping_shr(self, *rhs as usize)/*-*/
    { Self :: Shl_i16_val__shl ( self , * rhs ) }
//@ end
//@ extract expanded fn shr_assign ctx=">ShrAssign<i16>forUint<BITS,LIMBS>" vis=none as=ShrAssign_i16_val__shr_assign rewrite="* self << rhs" => "Self::Shl_i16_val__shl(*self, rhs)" #? rewrite="* self >> rhs" => "Self::Shr_i16_val__shr(*self, rhs)" #?
    fn ShrAssign_i16_val__shr_assign(&mut self, rhs: i16)
        /*+*/ensures rhs >= 0 ==> *final(self) == spec_wrapping_shr(*old(self), rhs as usize)/*-*/
    { *self = Self :: Shr_i16_val__shr ( * self , rhs ); }
//@ end
//@ extract expanded fn shr_assign ctx=">ShrAssign<&i16>forUint<BITS,LIMBS>" vis=none as=ShrAssign_i16_ref__shr_assign rewrite="* self << rhs" => "Self::Shl_i16_ref__shl(*self, rhs)" #? rewrite="* self >> rhs" => "Self::Shr_i16_ref__shr(*self, rhs)" #?
    fn ShrAssign_i16_ref__shr_assign(&mut self, rhs: &i16)
        /*+*/ensures *rhs >= 0 ==> *final(self) == spec_wrapping_shr(*old(self), *rhs as usize)/*-*/
    { *self = Self :: Shr_i16_ref__shr ( * self , rhs ); }
//@ end
//@ extract expanded fn shl ctx=">Shl<i32>forUint<BITS,LIMBS>" vis=none as=Shl_i32_val__shl rewrite="-> Self :: Output" => "-> Uint<BITS, LIMBS>" #1
    fn Shl_i32_val__shl(self, rhs: i32) -> /*+*/(r:/*-*/ Uint<BITS, LIMBS>/*+*/)
        ensures rhs >= 0 ==> r == spec_wrapping_shl(self, rhs as usize)/*-*/
    {
            self.wrapping_shl(rhs as usize)
        }
//@ end
//@ extract expanded fn shl ctx=">Shl<&i32>forUint<BITS,LIMBS>" vis=none as=Shl_i32_ref__shl rewrite="-> Self :: Output" => "-> Uint<BITS, LIMBS>" #1 rewrite="< Self > :: shl ( self , * rhs )" => "Self::Shl_i32_val__shl(self, *rhs)" #? rewrite="< Self > :: shr ( self , * rhs )" => "Self::Shr_i32_val__shr(self, *rhs)" #?
    fn Shl_i32_ref__shl(self, rhs: &i32) -> /*+*/(r:/*-*/ Uint<BITS, LIMBS>/*+*/)
        ensures *rhs >= 0 ==> r == spec_wrapping_shl(self, *rhs as usize)/*-*/
    { Self :: Shl_i32_val__shl ( self , * rhs ) }
//@ end
//@ extract expanded fn shl_assign ctx=">ShlAssign<i32>forUint<BITS,LIMBS>" vis=none as=ShlAssign_i32_val__shl_assign rewrite="* self << rhs" => "Self::Shl_i32_val__shl(*self, rhs)" #? rewrite="* self >> rhs" => "Self::Shr_i32_val__shr(*self, rhs)" #?
    fn ShlAssign_i32_val__shl_assign(&mut self, rhs: i32)
        /*+*/ensures rhs >= 0 ==> *final(self) == spec_wrapping_shl(*old(self), rhs as usize)/*-*/
    { *self = Self :: Shl_i32_val__shl ( * self , rhs ); }
//@ end
//@ extract expanded fn shl_assign ctx=">ShlAssign<&i32>forUint<BITS,LIMBS>" vis=none as=ShlAssign_i32_ref__shl_assign rewrite="* self << rhs" => "Self::Shl_i32_ref__shl(*self, rhs)" #? rewrite="* self >> rhs" => "Self::Shr_i32_ref__shr(*self, rhs)" #?
    fn ShlAssign_i32_ref__shl_assign(&mut self, rhs: &i32)
        /*+*/ensures *rhs >= 0 ==> *final(self) == spec_wrapping_shl(*old(self), *rhs as usize)/*-*/
    { *self = Self :: Shl_i32_ref__shl ( * self , rhs ); }
//@ end
//@ extract expanded fn shr ctx=">Shr<i32>forUint<BITS,LIMBS>" vis=none as=Shr_i32_val__shr rewrite="-> Self :: Output" => "-> Uint<BITS, LIMBS>" #1
    fn Shr_i32_val__shr(self, rhs: i32) -> /*+*/(r:/*-*/ Uint<BITS, LIMBS>/*+*/)
        ensures rhs >= 0 ==> r == spec_wrapping_shr(self, rhs as usize)/*-*/
    {
            self.wrapping_shr(rhs as usize)
        }
//@ end
//@ extract expanded fn shr ctx=">Shr<&i32>forUint<BITS,LIMBS>" vis=none as=Shr_i32_ref__shr rewrite="-> Self :: Output" => "-> Uint<BITS, LIMBS>" #1 rewrite="< Self > :: shl ( self , * rhs )" => "Self::Shl_i32_val__shl(self, *rhs)" #? rewrite="< Self > :: shr ( self , * rhs )" => "Self::Shr_i32_val__shr(self, *rhs)" #?
    fn Shr_i32_ref__shr(self, rhs: &i32) -> /*+*/(r:/*-*/ Uint<BITS, LIMBS>/*+*/)
        ensures *rhs >= 0 ==> r == spec_wrapping_shr(self, *rhs as usize)/*-*/
    { Self :: Shl_i32_val__shl ( self , * rhs ) }
//@ end
//@ extract expanded fn shr_assign ctx=">ShrAssign<i32>forUint<BITS,LIMBS>" vis=none as=ShrAssign_i32_val__shr_assign rewrite="* self << rhs" => "Self::Shl_i32_val__shl(*self, rhs)" #? rewrite="* self >> rhs" => "Self::Shr_i32_val__shr(*self, rhs)" #?
    fn ShrAssign_i32_val__shr_assign(&mut self, rhs: i32)
        /*+*/ensures rhs >= 0 ==> *final(self) == spec_wrapping_shr(*old(self), rhs as usize)/*-*/
    { *self = Self :: Shr_i32_val__shr ( * self , rhs ); }
//@ end
//@ extract expanded fn shr_assign ctx=">ShrAssign<&i32>forUint<BITS,LIMBS>" vis=none as=ShrAssign_i32_ref__shr_assign rewrite="* self << rhs" => "Self::Shl_i32_ref__shl(*self, rhs)" #? rewrite="* self >> rhs" => "Self::Shr_i32_ref__shr(*self, rhs)" #?
    fn ShrAssign_i32_ref__shr_assign(&mut self, rhs: &i32)
        /*+*/ensures *rhs >= 0 ==> *final(self) == spec_wrapping_shr(*old(self), *rhs as usize)/*-*/
    { *self = Self :: Shr_i32_ref__shr ( * self , rhs ); }
//@ end
//@ extract expanded fn shl ctx=">Shl<i64>forUint<BITS,LIMBS>" vis=none as=Shl_i64_val__shl rewrite="-> Self :: Output" => "-> Uint<BITS, LIMBS>" #1
    fn Shl_i64_val__shl(self, rhs: i64) -> /*+*/(r:/*-*/ Uint<BITS, LIMBS>/*+*/)
        ensures rhs >= 0 ==> r == spec_wrapping_shl(self, rhs as usize)/*-*/
    {
            self.wrapping_shl(rhs as usize)
        }
//@ end
//@ extract expanded fn shl ctx=">Shl<&i64>forUint<BITS,LIMBS>" vis=none as=Shl_i64_ref__shl rewrite="-> Self :: Output" => "-> Uint<BITS, LIMBS>" #1 rewrite="< Self > :: shl ( self , * rhs )" => "Self::Shl_i64_val__shl(self, *rhs)" #? rewrite="< Self > :: shr ( self , * rhs )" => "Self::Shr_i64_val__shr(self, *rhs)" #?
    fn Shl_i64_ref__shl(self, rhs: &i64) -> /*+*/(r:/*-*/ Uint<BITS, LIMBS>/*+*/)
        ensures *rhs >= 0 ==> r == spec_wrapping_shl(self, *rhs as usize)/*-*/
    { Self :: Shl_i64_val__shl ( self , * rhs ) }
//@ end
//@ extract expanded fn shl_assign ctx=">ShlAssign<i64>forUint<BITS,LIMBS>" vis=none as=ShlAssign_i64_val__shl_assign rewrite="* self << rhs" => "Self::Shl_i64_val__shl(*self, rhs)" #? rewrite="* self >> rhs" => "Self::Shr_i64_val__shr(*self, rhs)" #?
    fn ShlAssign_i64_val__shl_assign(&mut self, rhs: i64)
        /*+*/ensures rhs >= 0 ==> *final(self) == spec_wrapping_shl(*old(self), rhs as usize)/*-*/
    { *self = Self :: Shl_i64_val__shl ( * self , rhs ); }
//@ end
//@ extract expanded fn shl_assign ctx=">ShlAssign<&i64>forUint<BITS,LIMBS>" vis=none as=ShlAssign_i64_ref__shl_assign rewrite="* self << rhs" => "Self::Shl_i64_ref__shl(*self, rhs)" #? rewrite="* self >> rhs" => "Self::Shr_i64_ref__shr(*self, rhs)" #?
    fn ShlAssign_i64_ref__shl_assign(&mut self, rhs: &i64)
        /*+*/ensures *rhs >= 0 ==> *final(self) == spec_wrapping_shl(*old(self), *rhs as usize)/*-*/
    { *self = Self :: Shl_i64_ref__shl ( * self , rhs ); }
//@ end
//@ extract expanded fn shr ctx=">Shr<i64>forUint<BITS,LIMBS>" vis=none as=Shr_i64_val__shr rewrite="-> Self :: Output" => "-> Uint<BITS, LIMBS>" #1
    fn Shr_i64_val__shr(self, rhs: i64) -> /*+*/(r:/*-*/ Uint<BITS, LIMBS>/*+*/)
        ensures rhs >= 0 ==> r == spec_wrapping_shr(self, rhs as usize)/*-*/
    {
            self.wrapping_shr(rhs as usize)
        }
//@ end
//@ extract expanded fn shr ctx=">Shr<&i64>forUint<BITS,LIMBS>" vis=none as=Shr_i64_ref__shr rewrite="-> Self :: Output" => "-> Uint<BITS, LIMBS>" #1 rewrite="< Self > :: shl ( self , * rhs )" => "Self::Shl_i64_val__shl(self, *rhs)" #? rewrite="< Self > :: shr ( self , * rhs )" => "Self::Shr_i64_val__shr(self, *rhs)" #?
    fn Shr_i64_ref__shr(self, rhs: &i64) -> /*+*/(r:/*-*/ Uint<BITS, LIMBS>/*+*/)
        ensures *rhs >= 0 ==> r == spec_wrapping_shr(self, *rhs as usize)/*-*/
    { Self :: Shl_i64_val__shl ( self , * rhs ) }
//@ end
//@ extract expanded fn shr_assign ctx=">ShrAssign<i64>forUint<BITS,LIMBS>" vis=none as=ShrAssign_i64_val__shr_assign rewrite="* self << rhs" => "Self::Shl_i64_val__shl(*self, rhs)" #? rewrite="* self >> rhs" => "Self::Shr_i64_val__shr(*self, rhs)" #?
    fn ShrAssign_i64_val__shr_assign(&mut self, rhs: i64)
        /*+*/ensures rhs >= 0 ==> *final(self) == spec_wrapping_shr(*old(self), rhs as usize)/*-*/
    { *self = Self :: Shr_i64_val__shr ( * self , rhs ); }
//@ end
//@ extract expanded fn shr_assign ctx=">ShrAssign<&i64>forUint<BITS,LIMBS>" vis=none as=ShrAssign_i64_ref__shr_assign rewrite="* self << rhs" => "Self::Shl_i64_ref__shl(*self, rhs)" #? rewrite="* self >> rhs" => "Self::Shr_i64_ref__shr(*self, rhs)" #?
    fn ShrAssign_i64_ref__shr_assign(&mut self, rhs: &i64)
        /*+*/ensures *rhs >= 0 ==> *final(self) == spec_wrapping_shr(*old(self), *rhs as usize)/*-*/
    { *self = Self :: Shr_i64_ref__shr ( * self , rhs ); }
//@ end
}

} // verus!
fn main() {}

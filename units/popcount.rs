// unit popcount: src/bits.rs count_ones / count_zeros, src/special.rs is_power_of_two / checked_next_power_of_two / next_power_of_two,
// against the binary expansion of the value, for all widths  (C06)
#![allow(non_snake_case)]
use vstd::prelude::*;
use vstd::arithmetic::power::*;
use vstd::arithmetic::power2::*;
use vstd::arithmetic::mul::*;
use vstd::arithmetic::div_mod::*;
use vstd::bits::*;
use vstd::std_specs::cmp::*;
use vstd::std_specs::ops::*;
verus! {
global size_of usize == 8;
//@ include lib/base.rs

//@ extract src/lib.rs struct Uint
pub struct Uint<const BITS: usize, const LIMBS: usize> { pub
    limbs: [u64; LIMBS],
}
//@ end

//@ include lib/uint_spec.rs
//@ include lib/uint_ops.rs

// number of ones in the binary expansion
pub open spec fn pop(v: nat) -> nat decreases v { if v == 0 { 0 } else { v % 2 + pop(v / 2) } }

// ASSUMED (label A): u64::count_ones is the number of ones of the word (cross-checked full-domain by Kani core_specs)
pub assume_specification [u64::count_ones] (x: u64) -> (r: u32)
    ensures r as nat == pop(x as nat);

pub proof fn lemma_pop_bound(v: nat, k: nat)
    requires v < pow2(k)
    ensures pop(v) <= k
    decreases k
{
    lemma2_to64();
    if v != 0 {
        assert(k >= 1) by { if k == 0 { } };
        lemma_pow2_unfold(k);
        lemma_pop_bound(v / 2, (k - 1) as nat);
    }
}
// concatenation: the ones of lo + 2^k * x (lo < 2^k) are those of lo and those of x
pub proof fn lemma_pop_concat(lo: nat, k: nat, x: nat)
    requires lo < pow2(k)
    ensures pop(lo + pow2(k) * x) == pop(lo) + pop(x)
    decreases k
{
    lemma2_to64();
    if k == 0 {
        assert(lo == 0);
        assert(pow2(0) * x == x) by(nonlinear_arith) requires pow2(0) == 1;
    } else {
        lemma_pow2_unfold(k);
        let h = pow2((k - 1) as nat);
        let v = lo + pow2(k) * x;
        assert(v == 2 * (lo / 2 + h * x) + lo % 2) by(nonlinear_arith) requires v == lo + pow2(k) * x, pow2(k) == 2 * h, lo == 2 * (lo / 2) + lo % 2;
        lemma_fundamental_div_mod(lo as int, 2);
        lemma_fundamental_div_mod_converse(v as int, 2, (lo / 2 + h * x) as int, (lo % 2) as int);
        lemma_pop_concat(lo / 2, (k - 1) as nat, x);
        if v == 0 {
            assert(lo == 0);
            assert(h * x == 0);
            assert(x == 0) by(nonlinear_arith) requires h * x == 0, h > 0;
        } else if lo == 0 {
            assert(pop(0) == 0);
        }
        lemma_pow2_pos((k - 1) as nat);
    }
}
// exactly one one  <==>  a power of two
pub proof fn lemma_pop_one(v: nat)
    ensures (pop(v) == 1) <==> (exists|k: nat| v == pow2(k))
    decreases v
{
    lemma2_to64();
    if v == 0 {
        assert forall|k: nat| v != pow2(k) by { lemma_pow2_pos(k); }
    } else {
        lemma_pop_one(v / 2);
        lemma_fundamental_div_mod(v as int, 2);
        if pop(v) == 1 {
            if v % 2 == 1 {
                // pop(v/2) == 0: v/2 == 0, v == 1 == 2^0
                lemma_pop_zero(v / 2);
                assert(v == pow2(0));
            } else {
                let k = choose|k: nat| v / 2 == pow2(k);
                lemma_pow2_unfold(k + 1);
                assert(v == pow2(k + 1));
            }
        }
        if exists|k: nat| v == pow2(k) {
            let k = choose|k: nat| v == pow2(k);
            if k == 0 {
                assert(v == 1); assert(pop(0) == 0); assert(pop(1) == 1 + pop(0));
            } else {
                lemma_pow2_unfold(k);
                assert(v / 2 == pow2((k - 1) as nat));
                assert(v % 2 == 0);
            }
        }
    }
}
pub proof fn lemma_pop_zero(v: nat)
    requires pop(v) == 0
    ensures v == 0
    decreases v
{
    if v != 0 { lemma_pop_zero(v / 2); lemma_fundamental_div_mod(v as int, 2); }
}

impl<const BITS: usize, const LIMBS: usize> Uint<BITS, LIMBS> {
//@ import basics ONE
//@ import bitlen bit_len

//@ extract src/bits.rs fn count_ones
    pub fn count_ones(&self) -> /*+*/(r:/*-*/ usize/*+*/)
        requires self.wf(), BITS <= usize::MAX - 63
        ensures r as nat == pop(self.val()), r <= BITS/*-*/
    {
        let mut total = 0;
        let mut i = 0;
        /*+*/proof { assert(pop(0) == 0); }/*-*/
        while i < LIMBS
            /*+*/invariant i <= LIMBS, total as nat == pop(lv(self.limbs@, i as nat)), total <= 64 * i, Self::sized(), BITS <= usize::MAX - 63,
            decreases LIMBS - i/*-*/
        {
            /*+*/proof {
                lemma_lv_bound(self.limbs@, i as nat);
                lemma_pop_concat(lv(self.limbs@, i as nat), 64 * i as nat, self.limbs[i as int] as nat);
                lemma_pow2_64();
                lemma_pop_bound(self.limbs[i as int] as nat, 64);
                lemma_mul_is_commutative(self.limbs[i as int] as int, pow2(64 * i as nat) as int);
            }/*-*/
            total += self.limbs[i].count_ones() as usize;
            i += 1;
        }
        /*+*/proof { self.lemma_wf_lt(); lemma_pop_bound(self.val(), BITS as nat); }/*-*/
        total
    }
//@ end

//@ extract src/bits.rs fn count_zeros
    pub fn count_zeros(&self) -> /*+*/(r:/*-*/ usize/*+*/)
        requires self.wf(), BITS <= usize::MAX - 63
        ensures r as nat == BITS - pop(self.val())/*-*/
    {
        BITS - self.count_ones()
    }
//@ end

//@ extract src/special.rs fn is_power_of_two
    pub fn is_power_of_two(self) -> /*+*/(r:/*-*/ bool/*+*/)
        requires self.wf(), BITS <= usize::MAX - 63
        ensures r == (exists|k: nat| self.val() == pow2(k))/*-*/
    {
        /*+*/proof { lemma_pop_one(self.val()); }/*-*/
        self.count_ones() == 1
    }
//@ end
//@ extract src/special.rs fn checked_next_power_of_two consts=ONE
    pub fn checked_next_power_of_two(self) -> /*+*/(r:/*-*/ Option<Self>/*+*/)
        requires self.wf(), BITS <= usize::MAX - 63
        ensures
            r.is_none() <==> (BITS == 0 || self.val() > pow2((BITS - 1) as nat)),
            r.is_some() ==> r.unwrap().wf() && (exists|k: nat| r.unwrap().val() == pow2(k)) && r.unwrap().val() >= self.val()
                && (self.val() == 0 || r.unwrap().val() < 2 * self.val()),/*-*/
    {
        /*+*/let ghost v = self.val();
        proof { self.lemma_wf_lt(); lemma2_to64(); }/*-*/
        if self.is_power_of_two() {
            /*+*/proof {
                // a power of two below 2^BITS is at most 2^(BITS-1)
                let k = choose|k: nat| v == pow2(k);
                if BITS == 0 { lemma_pow2_pos(k); } else if k >= BITS { if k > BITS { lemma_pow2_strictly_increases(BITS as nat, k); } } else if k < BITS - 1 { lemma_pow2_strictly_increases(k, (BITS - 1) as nat); }
                lemma_pow2_pos(k);
            }/*-*/
            return Some(self);
        }
        let exp = self.bit_len();
        /*+*/proof {
            // not a power of two: 2^(exp-1) < v < 2^exp (or v == 0, exp == 0)
            if v != 0 {
                lemma_pow2_unfold(exp as nat);
                assert(v != pow2((exp - 1) as nat));
                if exp >= BITS { assert(exp == BITS); }
                else { lemma_pow2_strictly_increases(exp as nat, BITS as nat); if exp < BITS - 1 { lemma_pow2_strictly_increases(exp as nat, (BITS - 1) as nat); } }
            } else {
                if BITS > 0 { lemma_pow2_pos((BITS - 1) as nat); lemma_pow2_strictly_increases(0, BITS as nat); }
            }
            if exp < BITS {
                assert(1 * pow2(exp as nat) == pow2(exp as nat)) by(nonlinear_arith);
                lemma_small_mod(pow2(exp as nat), pow2(BITS as nat));
            }
        }/*-*/
        if exp >= BITS {
            return None;
        }
        Some(Self::ONE() << exp)
    }
//@ end

//@ extract src/special.rs fn next_power_of_two
    pub fn next_power_of_two(self) -> /*+*/(r:/*-*/ Self/*+*/)
        requires self.wf(), BITS <= usize::MAX - 63,
            BITS > 0 && self.val() <= pow2((BITS - 1) as nat),       // documented: panics if the result does not fit
        ensures r.wf(), (exists|k: nat| r.val() == pow2(k)), r.val() >= self.val(), self.val() == 0 || r.val() < 2 * self.val(),/*-*/
    {
        self.checked_next_power_of_two().unwrap()
    }
//@ end
}

} // verus!
fn main() {}

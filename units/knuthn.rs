// unit knuthn: src/algorithms/div/knuth.rs div_nxm_normalized (Knuth algorithm D, normalised divisor, quotient and remainder left in the numerator)  (C14)
// (header and estimate lemmas shared with unit knuth)
#![allow(non_snake_case)]
use vstd::prelude::*;
use vstd::arithmetic::power2::*;
use vstd::arithmetic::mul::*;
use vstd::arithmetic::div_mod::*;
use vstd::std_specs::bits::*;
use vstd::bits::*;
use core::cmp::Ordering;
use vstd::std_specs::cmp::*;
verus! {
//@ include lib/base.rs
//@ include lib/lvr.rs
//@ include lib/divspec.rs

//@ import div_small reciprocal_2_mg10
//@ import div_small div_3x2_mg10
// aliases (pub use self::{div_3x2_mg10 as div_3x2, reciprocal_2_mg10 as reciprocal_2})
pub fn div_3x2(u21: u128, u0: u64, d: u128, v: u64) -> (res: (u64, u128))
    requires d as int >= B * B / 2, u21 < d, is_reciprocal_2(d, v),
    ensures res.0 as int * d as int + res.1 as int == u21 as int * B + u0 as int, res.1 < d,
{ div_3x2_mg10(u21, u0, d, v) }
pub fn reciprocal_2(d: u128) -> (v: u64)
    requires d as int >= B * B / 2
    ensures is_reciprocal_2(d, v)
{ reciprocal_2_mg10(d) }
//@ import kernels submul_nx1
//@ import kernels adc_n
//@ import kernels sbb_n
//@ import kernels cmp
//@ import kernels mul_nx1
//@ import kernels addmul_nx1
pub open spec fn ord_of(a: int, b: int) -> Ordering {
    if a < b { Ordering::Less } else if a == b { Ordering::Equal } else { Ordering::Greater }
}
pub assume_specification [<Ordering as PartialEq>::eq] (a: &Ordering, b: &Ordering) -> (r: bool)
    ensures r == (*a == *b);

//@ extract src/algorithms/mod.rs trait DoubleWord
pub trait DoubleWord<T>: Sized + Copy {
    fn join(high: T, low: T) -> Self;
    fn add(a: T, b: T) -> Self;
    fn mul(a: T, b: T) -> Self;
    fn muladd(a: T, b: T, c: T) -> Self;
    fn muladd2(a: T, b: T, c: T, d: T) -> Self;
    fn high(self) -> T;
    fn low(self) -> T;
    fn split(self) -> (T, T);
}
//@ end
impl DoubleWord<u64> for u128 {
//@ import kernels join
//@ import kernels add
//@ import kernels mul
//@ import kernels muladd
//@ import kernels muladd2
//@ import kernels high
//@ import kernels low
//@ import kernels split
}

pub assume_specification<T: Copy> [Option::<&T>::copied] (o: Option<&T>) -> (r: Option<T>)
    ensures r == (match o { Some(x) => Some(*x), None => None::<T> });
pub assume_specification<T: Clone> [<[T]>::fill] (s: &mut [T], value: T)
    ensures final(s).len() == old(s).len(), forall|i: int| 0 <= i < old(s).len() ==> final(s)@[i] == value;
pub assume_specification [u128::overflowing_sub] (a: u128, b: u128) -> (r: (u128, bool))
    ensures r.1 == (a < b), r.0 as int == (if a < b { a as int - b as int + B * B } else { a as int - b as int });



//@ include lib/shift.rs

// Knuth D quotient-digit estimate from a 3-by-2 division of the (implicitly shifted) leading limbs.
//   W  : (n+1)-limb window, W < D*B         D : n-limb divisor
//   s2 : 2^shift, E : B^(n-2)
//   T  : floor(W*s2 / E)  (three leading limbs of the shifted window)
//   d  : floor(D*s2 / E)  (two leading limbs of the shifted divisor), normalised
//   q  : floor(T / d) < B
// Then the true digit floor(W/D) is q or q-1:   -D < W - q*D < D
pub proof fn lemma_knuth_estimate(w: int, dd: int, s2: int, e: int, t: int, d: int, q: int)
    requires
        e >= 1, s2 >= 1, dd >= 1, 0 <= w,
        t * e <= w * s2 < (t + 1) * e,
        d * e <= dd * s2 < (d + 1) * e,
        d >= B * B / 2,
        q * d <= t < (q + 1) * d,
        0 <= q < B,
    ensures
        -dd < w - q * dd < dd
{
    // upper:  w*s2 - q*dd*s2 < (t+1)e - q*d*e <= d*e <= dd*s2
    assert((t + 1) * e <= (q + 1) * d * e) by(nonlinear_arith) requires t + 1 <= (q + 1) * d, e >= 1;
    assert(q * (dd * s2) >= q * (d * e)) by(nonlinear_arith) requires q >= 0, dd * s2 >= d * e;
    assert((w - q * dd) * s2 == w * s2 - q * (dd * s2)) by(nonlinear_arith);
    assert((q + 1) * d * e - q * (d * e) == d * e) by(nonlinear_arith);
    assert((w - q * dd) * s2 < dd * s2);
    assert(w - q * dd < dd) by(nonlinear_arith) requires (w - q * dd) * s2 < dd * s2, s2 >= 1;
    // lower:  w*s2 - q*dd*s2 >= t*e - q*(d+1)*e >= -q*e > -B*e >= -d*e >= -dd*s2   (d >= B)
    assert(q * (dd * s2) <= q * ((d + 1) * e)) by(nonlinear_arith) requires q >= 0, dd * s2 < (d + 1) * e;
    assert(t * e >= q * d * e) by(nonlinear_arith) requires t >= q * d, e >= 1;
    assert(q * ((d + 1) * e) == q * d * e + q * e) by(nonlinear_arith);
    assert(q * e < B * e) by(nonlinear_arith) requires q < B, e >= 1;
    assert(B * e <= d * e) by(nonlinear_arith) requires d >= B, e >= 1;
    assert((w - q * dd) * s2 > -(dd * s2));
    assert(w - q * dd > -dd) by(nonlinear_arith) requires (w - q * dd) * s2 > -(dd * s2), s2 >= 1;
}

// Overflow case: the two leading limbs of the window equal d, i.e. T >= d*B. Then the digit is B-1.
pub proof fn lemma_knuth_overflow(w: int, dd: int, s2: int, e: int, t: int, d: int)
    requires
        e >= 1, s2 >= 1, dd >= 1, 0 <= w < dd * B,
        t * e <= w * s2,
        dd * s2 < (d + 1) * e,
        d >= B * B / 2,
        t >= d * B,
    ensures
        0 <= w - (B - 1) * dd < dd
{
    assert(w - (B - 1) * dd < dd) by(nonlinear_arith) requires w < dd * B;
    // w*s2 >= t*e >= d*B*e ;  (B-1)*dd*s2 < (B-1)*(d+1)*e
    assert(t * e >= d * B * e) by(nonlinear_arith) requires t >= d * B, e >= 1;
    assert((B - 1) * (dd * s2) < (B - 1) * ((d + 1) * e)) by(nonlinear_arith) requires dd * s2 < (d + 1) * e, B == 0x1_0000_0000_0000_0000;
    assert(d * B * e - (B - 1) * ((d + 1) * e) == (d - B + 1) * e) by(nonlinear_arith);
    assert((d - B + 1) * e > 0) by(nonlinear_arith) requires d >= B * B / 2, e >= 1, B == 0x1_0000_0000_0000_0000;
    assert((w - (B - 1) * dd) * s2 == w * s2 - (B - 1) * (dd * s2)) by(nonlinear_arith);
    assert((w - (B - 1) * dd) * s2 > 0);
    assert(w - (B - 1) * dd >= 0) by(nonlinear_arith) requires (w - (B - 1) * dd) * s2 > 0, s2 >= 1;
}

// the machine-level fetch of the shifted leading limbs (TODO in this probe: bit-level proof)
pub open spec fn fetch3_ok(x3: int, x2: int, x1: int, x0: int, sh: int, hi: int, lo: int) -> bool {
    // (hi*B + lo) == floor( (x3*B^3 + x2*B^2 + x1*B + x0) * 2^sh / B )   as a 3-limb value
    &&& (hi * B + lo) * B <= ((x3 * B + x2) * B + x1) * B * pow2(sh as nat) + x0 * pow2(sh as nat)
    &&& ((x3 * B + x2) * B + x1) * B * pow2(sh as nat) + x0 * pow2(sh as nat) < (hi * B + lo + 1) * B
    &&& (x0 * pow2(sh as nat)) % B <= B - pow2(sh as nat)
}


// From the loop invariant Rem < D*bp(j+1) the window is < D*B
pub proof fn lemma_window_lt(low: int, w: int, dd: int, bj: int)
    requires low >= 0, bj >= 1, low + bj * w < dd * (B * bj)
    ensures w < dd * B
{
    assert(bj * w < bj * (dd * B)) by(nonlinear_arith) requires low >= 0, low + bj * w < dd * (B * bj);
    assert(w < dd * B) by(nonlinear_arith) requires bj * w < bj * (dd * B), bj >= 1;
}

// T*E <= W*s2 < (T+1)*E  from the four leading limbs x (value x4 = top four limbs), shift factor s2 | B
//   W = x4 * bp(n-3) + wlow, 0 <= wlow < bp(n-3);   T*B <= x4*s2 <= T*B + B - s2   (x4*s2 is a multiple of s2)
pub proof fn lemma_window_bounds(w: int, x4: int, wlow: int, e3: int, s2: int, t: int)
    requires e3 >= 1, s2 >= 1, 0 <= wlow < e3, w == x4 * e3 + wlow,
        t * B <= x4 * s2, x4 * s2 <= t * B + B - s2,
    ensures t * (B * e3) <= w * s2 < (t + 1) * (B * e3)
{
    assert(w * s2 == (x4 * s2) * e3 + wlow * s2) by(nonlinear_arith) requires w == x4 * e3 + wlow;
    assert((x4 * s2) * e3 >= (t * B) * e3) by(nonlinear_arith) requires x4 * s2 >= t * B, e3 >= 1;
    assert(wlow * s2 >= 0) by(nonlinear_arith) requires wlow >= 0, s2 >= 1;
    assert((t * B) * e3 == t * (B * e3)) by(nonlinear_arith);
    assert((x4 * s2) * e3 <= (t * B + B - s2) * e3) by(nonlinear_arith) requires x4 * s2 <= t * B + B - s2, e3 >= 1;
    assert(wlow * s2 <= (e3 - 1) * s2) by(nonlinear_arith) requires wlow <= e3 - 1, s2 >= 1;
    assert((t * B + B - s2) * e3 + (e3 - 1) * s2 < (t + 1) * (B * e3)) by(nonlinear_arith) requires s2 >= 1, e3 >= 1;
}


// one quotient digit done: the window [j, j+n] of the numerator now holds the new remainder window and the digit
pub proof fn lemma_step_done(num0: Seq<u64>, num4: Seq<u64>, ji: int, ni: int, ll: int, nn: int, qacc: int, dd: int, low: int, w: int, wnew: int, q: int)
    requires
        num4.len() == ll, num0.len() == ll, 0 <= ji, ji + ni < ll, ni >= 2, dd >= 1,
        forall|i: int| (0 <= i < ji || ji + ni < i < ll) ==> num4[i] == num0[i],
        num4[ji + ni] as int == q, lvr(num4, ji, ji + ni) == wnew, 0 <= wnew < dd, wnew == w - q * dd,
        low == lvr(num0, 0, ji), nn == qacc * dd + (low + bp(ji) * w), qacc == bp(ji + 1) * lvr(num0, ji + 1 + ni, ll),
    ensures
        nn == (qacc + bp(ji) * q) * dd + lvr(num4, 0, ji + ni),
        lvr(num4, 0, ji + ni) < dd * bp(ji),
        qacc + bp(ji) * q == bp(ji) * lvr(num4, ji + ni, ll),
{
    lemma_lvr_split(num4, 0, ji, ji + ni);
    lemma_lvr_ext(num0, num4, 0, ji);
    lemma_lvr_bound(num0, 0, ji); lemma_bp_pos(ji);
    assert(lvr(num4, 0, ji + ni) == low + bp(ji) * wnew);
    assert(low + bp(ji) * wnew < dd * bp(ji)) by(nonlinear_arith) requires 0 <= low < bp(ji), 0 <= wnew <= dd - 1, bp(ji) >= 1;
    assert(nn == (qacc + bp(ji) * q) * dd + (low + bp(ji) * wnew)) by(nonlinear_arith)
        requires nn == qacc * dd + (low + bp(ji) * w), wnew == w - q * dd;
    lemma_lvr_ext(num0, num4, ji + ni + 1, ll);
    assert(lvr(num4, ji + ni, ll) == q + B * lvr(num4, ji + ni + 1, ll));
    assert(bp(ji + 1) == B * bp(ji));
    assert(bp(ji) * (q + B * lvr(num4, ji + ni + 1, ll)) == bp(ji) * q + (B * bp(ji)) * lvr(num4, ji + ni + 1, ll)) by(nonlinear_arith);
}

//@ extract src/algorithms/div/knuth.rs fn div_nxm_normalized rewrite="for j in ( 0 ..= m ) . rev ( ) {" => "let mut jj: usize = m + 1; while jj > 0 { jj -= 1; let j = jj;" #1
/*+*/#[verifier::rlimit(500)] #[verifier::spinoff_prover]/*-*/
pub fn div_nxm_normalized(numerator: &mut [u64], divisor: &[u64])
    /*+*/requires
        divisor.len() >= 2,
        old(numerator).len() > divisor.len(),
        divisor@[divisor.len() - 1] >= 0x8000_0000_0000_0000,
        // the quotient must fit the limbs above the remainder: the top divisor.len() limbs of the numerator are below the divisor
        lvr(old(numerator)@, old(numerator).len() - divisor.len(), old(numerator).len() as int) < lvr(divisor@, 0, divisor.len() as int),
    ensures
        final(numerator).len() == old(numerator).len(),
        // quotient in numerator[n..], remainder in numerator[..n]
        lvr(old(numerator)@, 0, old(numerator).len() as int)
            == lvr(final(numerator)@, divisor.len() as int, old(numerator).len() as int) * lvr(divisor@, 0, divisor.len() as int)
               + lvr(final(numerator)@, 0, divisor.len() as int),
        lvr(final(numerator)@, 0, divisor.len() as int) < lvr(divisor@, 0, divisor.len() as int),/*-*/
{
    /*+*/proof { assert((1u64 << 63) == 0x8000_0000_0000_0000u64) by(bit_vector); }/*-*/
    vassert (divisor.len() >= 2 );
    vassert (numerator.len() >= divisor.len() );
    vassert (*divisor.last().unwrap() >= (1 << 63) );

    let n = divisor.len();
    let m = numerator.len() - n - 1;
    /*+*/let ghost ni = n as int;
    let ghost mi = m as int;
    let ghost ll = ni + mi + 1;
    let ghost num_in = numerator@;
    let ghost div0 = divisor@;
    let ghost dd = lvr(div0, 0, ni);
    let ghost nn = lvr(num_in, 0, ll);/*-*/

    // Compute the divisor double limb and reciprocal
    let d = u128::join(divisor[n - 1], divisor[n - 2]);
    /*+*/let ghost e = bp(ni - 2);
    let ghost dlow = lvr(div0, 0, ni - 2);
    proof {
        lemma_bp_pos(ni - 2);
        lemma_lvr_split(div0, 0, ni - 2, ni);
        assert(lvr(div0, ni - 2, ni) == div0[ni - 2] as int + B * (div0[ni - 1] as int)) by {
            assert(lvr(div0, ni, ni) == 0); assert(B * 0 == 0);
            assert(lvr(div0, ni - 1, ni) == div0[ni - 1] as int);
        }
        lemma_lvr_bound(div0, 0, ni - 2);
        let y2 = div0[ni - 1] as int; let y1 = div0[ni - 2] as int;
        assert(d as int == y2 * B + y1);
        assert(dd == dlow + e * (d as int)) by(nonlinear_arith) requires dd == dlow + e * (y1 + B * y2), d as int == y2 * B + y1;
        assert(d as int >= B * B / 2) by(nonlinear_arith) requires d as int == y2 * B + y1, y2 >= B / 2, y1 >= 0, B == 0x1_0000_0000_0000_0000;
        assert((d as int) * e <= dd && dd < (d as int + 1) * e) by(nonlinear_arith) requires dd == dlow + e * (d as int), 0 <= dlow < e;
        assert(dd >= 1) by(nonlinear_arith) requires (d as int) * e <= dd, d as int >= 1, e >= 1;
        assert((1u128 << 127) == 0x8000_0000_0000_0000_0000_0000_0000_0000u128) by(bit_vector); assert(B * B == 0x1_0000_0000_0000_0000_0000_0000_0000_0000) by(compute_only);
    }/*-*/
    let v = reciprocal_2(d);

    /*+*/let ghost mut qacc: int = 0;
    proof {
        // N < D * B^(m+1) from the precondition on the top n limbs
        lemma_lvr_split(num_in, 0, mi + 1, ll);
        lemma_lvr_bound(num_in, 0, mi + 1); lemma_bp_pos(mi + 1);
        assert(nn < dd * bp(mi + 1)) by(nonlinear_arith)
            requires nn == lvr(num_in, 0, mi + 1) + bp(mi + 1) * lvr(num_in, mi + 1, ll), lvr(num_in, 0, mi + 1) < bp(mi + 1), lvr(num_in, mi + 1, ll) <= dd - 1, bp(mi + 1) >= 1;
        assert(lvr(num_in, ll, ll) == 0);
        assert(bp(mi + 1) * 0 == 0) by(nonlinear_arith);
        assert(0 * dd == 0) by(nonlinear_arith);
    }/*-*/

    // Compute the quotient one limb at a time.
    let mut jj: usize = m + 1; while jj > 0
        /*+*/invariant
            ni == n, mi == m, ll == ni + mi + 1, ni >= 2, numerator.len() == ll, divisor@ == div0, divisor.len() == n,
            dd == lvr(div0, 0, ni), dd >= 1, e == bp(ni - 2), e >= 1, dlow == lvr(div0, 0, ni - 2), 0 <= dlow < e,
            d as int >= B * B / 2, (d as int) * e <= dd, dd < (d as int + 1) * e, dd == dlow + e * (d as int),
            is_reciprocal_2(d, v), B == 0x1_0000_0000_0000_0000,
            0 <= jj <= mi + 1,
            ({
                let jn = jj as int;
                &&& nn == qacc * dd + lvr(numerator@, 0, jn + ni)
                &&& lvr(numerator@, 0, jn + ni) < dd * bp(jn)
                &&& qacc == bp(jn) * lvr(numerator@, jn + ni, ll)
            }),
        decreases jj/*-*/
    { jj -= 1; let j = jj;
        /*+*/let ghost k = mi - j as int;
        let ghost ji = j as int;
        let ghost num0 = numerator@;
        let ghost n2v: int = num0[ji + ni] as int;
        let ghost wl = lvr(num0, ji, ji + ni);
        let ghost w = wl + n2v * bp(ni);
        let ghost low = lvr(num0, 0, ji);
        let ghost wlow2 = lvr(num0, ji, ji + ni - 2);
        let ghost x2 = num0[ji + ni - 1] as int;
        let ghost x1 = num0[ji + ni - 2] as int;
        proof {
            assert(ji == mi - k);
            lemma_lvr_split(num0, 0, ji, ji + ni + 1);
            lemma_lvr_split(num0, ji, ji + ni, ji + ni + 1);
            assert(lvr(num0, ji + ni, ji + ni + 1) == num0[ji + ni] as int) by {
                assert(lvr(num0, ji + ni + 1, ji + ni + 1) == 0);
                assert(B * 0 == 0);
            }
            assert(bp(ni) * (num0[ji + ni] as int) == n2v * bp(ni)) by(nonlinear_arith) requires n2v == num0[ji + ni] as int;
            assert(lvr(num0, 0, ji + ni + 1) == low + bp(ji) * w);
            lemma_bp_pos(ji); lemma_lvr_bound(num0, 0, ji);
            assert(bp(ji + 1) == B * bp(ji));
            lemma_window_lt(low, w, dd, bp(ji));
            lemma_lvr_bound(div0, 0, ni);
            lemma_lvr_bound(num0, ji, ji + ni);
            lemma_bp_pos(ni);
            assert(n2v * bp(ni) >= 0) by(nonlinear_arith) requires n2v >= 0, bp(ni) >= 1;
            // W == wlow2 + e*((n2v*B + x2)*B + x1)
            lemma_lvr_split(num0, ji, ji + ni - 2, ji + ni);
            assert(lvr(num0, ji + ni - 2, ji + ni) == x1 + B * x2) by {
                assert(lvr(num0, ji + ni, ji + ni) == 0); assert(B * 0 == 0);
                assert(lvr(num0, ji + ni - 1, ji + ni) == x2);
            }
            lemma_lvr_bound(num0, ji, ji + ni - 2);
            assert(bp(ni) == B * bp(ni - 1) && bp(ni - 1) == B * e);
            assert(w == wlow2 + e * ((n2v * B + x2) * B + x1)) by(nonlinear_arith)
                requires w == wl + n2v * bp(ni), wl == wlow2 + e * (x1 + B * x2), bp(ni) == B * (B * e);
        }/*-*/
        // Fetch the first three limbs of the numerator.
        let n21 = u128::join(numerator[j + n], numerator[j + n - 1]);
        let n0 = numerator[j + n - 2];
        /*+*/let ghost t = n21 as int * B + n0 as int;
        proof {
            let di = d as int;
            assert(t == (n2v * B + x2) * B + x1);
            assert(t * e <= w && w < (t + 1) * e) by(nonlinear_arith) requires w == wlow2 + e * t, 0 <= wlow2 < e;
            assert(w < ((di + 1) * e) * B) by(nonlinear_arith) requires w < dd * B, dd < (di + 1) * e, B > 0, w >= 0, dd >= 0;
            assert(t < (di + 1) * B) by(nonlinear_arith) requires t * e <= w, w < ((di + 1) * e) * B, e >= 1;
            assert(n21 as int <= di) by(nonlinear_arith) requires t == n21 as int * B + n0 as int, n0 as int >= 0, t < (di + 1) * B, B > 0;
            assert(w * 1 == w) by(nonlinear_arith); assert(dd * 1 == dd) by(nonlinear_arith);
        }/*-*/
        vassert (n21 <= d );

        // Overflow case
        if (n21 == d) {
            let q = u64::MAX;
            let _carry = submul_nx1(&mut numerator[j..j + n], divisor, q);
            /*+*/let ghost num1 = numerator@;
            let ghost mut wnew: int = 0;
            proof {
                assert(t >= d as int * B) by(nonlinear_arith) requires t == n21 as int * B + n0 as int, n21 as int >= d as int, n0 as int >= 0;
                lemma_knuth_overflow(w, dd, 1, e, t, d as int);
                lemma_lvr_shift(num0, num0.subrange(ji, ji + ni), ji, ji + ni);
                lemma_lvr_shift(num1, num1.subrange(ji, ji + ni), ji, ji + ni);
                assert(lvr(num1, ji, ji + ni) - _carry as int * bp(ni) == wl - dd * (B - 1));
                lemma_lvr_bound(num1, ji, ji + ni);
                assert(n2v == _carry as int) by(nonlinear_arith)
                    requires w == wl + n2v * bp(ni), lvr(num1, ji, ji + ni) - _carry as int * bp(ni) == wl - dd * (B - 1),
                             0 <= w - (B - 1) * dd, w - (B - 1) * dd < dd, dd < bp(ni), 0 <= lvr(num1, ji, ji + ni) < bp(ni);
                wnew = lvr(num1, ji, ji + ni);
                assert(wnew == w - (B - 1) * dd) by(nonlinear_arith)
                    requires w == wl + n2v * bp(ni), wnew - _carry as int * bp(ni) == wl - dd * (B - 1), n2v == _carry as int;
                assert(forall|i: int| (0 <= i < ji || ji + ni <= i < ll) ==> num1[i] == num0[i]);
            }/*-*/
            numerator[j + n] = q;
            /*+*/proof {
                let num4 = numerator@;
                lemma_lvr_ext(num1, num4, ji, ji + ni);
                lemma_step_done(num0, num4, ji, ni, ll, nn, qacc, dd, low, w, wnew, q as int);
                qacc = qacc + bp(ji) * q as int;
            }/*-*/
            continue;
        }

        // Calculate 3x2 approximate quotient word.
        // By using 3x2 limbs we get a quotient that is very likely correct
        // and at most one too large. In the process we also get the first
        // two remainder limbs.
        let (mut q, r) = div_3x2(n21, n0, d, v);
        /*+*/let ghost q3 = q as int;
        let ghost r_in = r as int;
        let ghost mut wnew: int = 0;
        proof {
            assert(q3 * d as int <= t < (q3 + 1) * d as int) by(nonlinear_arith)
                requires q3 * d as int + r as int == t, 0 <= r as int, (r as int) < d as int;
            lemma_knuth_estimate(w, dd, 1, e, t, d as int, q3);
        }/*-*/

        // Subtract the quotient times the divisor from the remainder.
        // We already have the highest two limbs, so we can reduce the
        // computation. We still need to carry propagate into these limbs.
        let borrow = submul_nx1(&mut numerator[j..j + n - 2], &divisor[..n - 2], q);
        /*+*/let ghost b1 = borrow as int;
        let ghost num_a = numerator@;/*-*/
        let (r, borrow) = r.overflowing_sub(u128::from(borrow));
        numerator[j + n - 2] = r.low();
        numerator[j + n - 1] = r.high();
        /*+*/let ghost num1 = numerator@;
        proof {
            lemma_lvr_shift(num0, num0.subrange(ji, ji + ni - 2), ji, ji + ni - 2);
            lemma_lvr_shift(num_a, num_a.subrange(ji, ji + ni - 2), ji, ji + ni - 2);
            lemma_lvr_shift(div0, div0.subrange(0, ni - 2), 0, ni - 2);
            assert(lvr(num_a, ji, ji + ni - 2) - b1 * e == wlow2 - dlow * q3);
            // after the two stores
            lemma_lvr_ext(num_a, num1, ji, ji + ni - 2);
            lemma_lvr_split(num1, ji, ji + ni - 2, ji + ni);
            lemma_fundamental_div_mod(r as int, B);
            assert(lvr(num1, ji + ni - 2, ji + ni) == (r as int) % B + B * ((r as int) / B)) by {
                assert(lvr(num1, ji + ni, ji + ni) == 0); assert(B * 0 == 0);
                assert(lvr(num1, ji + ni - 1, ji + ni) == (r as int) / B);
            }
            assert(lvr(num1, ji, ji + ni) == lvr(num_a, ji, ji + ni - 2) + e * (r as int));
            assert(w - q3 * dd == e * (r_in - b1) + lvr(num_a, ji, ji + ni - 2)) by(nonlinear_arith)
                requires w == wlow2 + e * t, dd == dlow + e * (d as int), q3 * d as int + r_in == t,
                         lvr(num_a, ji, ji + ni - 2) - b1 * e == wlow2 - dlow * q3;
            assert(bp(ni) == B * B * e) by(nonlinear_arith) requires bp(ni) == B * bp(ni - 1), bp(ni - 1) == B * e;
            lemma_lvr_bound(num1, ji, ji + ni);
            if borrow {
                assert(w - q3 * dd == lvr(num1, ji, ji + ni) - bp(ni)) by(nonlinear_arith)
                    requires w - q3 * dd == e * (r_in - b1) + lvr(num_a, ji, ji + ni - 2), r as int == r_in - b1 + B * B,
                             lvr(num1, ji, ji + ni) == lvr(num_a, ji, ji + ni - 2) + e * (r as int), bp(ni) == B * B * e;
            } else {
                assert(w - q3 * dd == lvr(num1, ji, ji + ni)) by(nonlinear_arith)
                    requires w - q3 * dd == e * (r_in - b1) + lvr(num_a, ji, ji + ni - 2), r as int == r_in - b1,
                             lvr(num1, ji, ji + ni) == lvr(num_a, ji, ji + ni - 2) + e * (r as int);
                wnew = lvr(num1, ji, ji + ni);
            }
            assert(forall|i: int| (0 <= i < ji || ji + ni <= i < ll) ==> num1[i] == num0[i]);
        }/*-*/

        // If we have a carry then the quotient was one too large.
        // We correct by decrementing the quotient and adding one divisor back.
        if (borrow) {
            q = q.wrapping_sub(1);
            let carry = adc_n(&mut numerator[j..j + n], &divisor[..n], 0);
            /*+*/proof {
                let num2 = numerator@;
                lemma_lvr_shift(num1, num1.subrange(ji, ji + ni), ji, ji + ni);
                lemma_lvr_shift(num2, num2.subrange(ji, ji + ni), ji, ji + ni);
                lemma_lvr_shift(div0, div0.subrange(0, ni), 0, ni);
                assert(lvr(num2, ji, ji + ni) + carry as int * bp(ni) == lvr(num1, ji, ji + ni) + dd);
                lemma_lvr_bound(num2, ji, ji + ni);
                assert(carry == 1) by(nonlinear_arith)
                    requires lvr(num2, ji, ji + ni) + carry as int * bp(ni) == lvr(num1, ji, ji + ni) + dd,
                             w - q3 * dd == lvr(num1, ji, ji + ni) - bp(ni), -dd < w - q3 * dd,
                             0 <= lvr(num2, ji, ji + ni) < bp(ni), carry <= 1, dd < bp(ni), bp(ni) >= 1;
                wnew = lvr(num2, ji, ji + ni);
                assert(carry as int * bp(ni) == bp(ni)) by(nonlinear_arith) requires carry == 1;
                assert(wnew == w - (q3 - 1) * dd) by(nonlinear_arith)
                    requires wnew + bp(ni) == lvr(num1, ji, ji + ni) + dd, w - q3 * dd == lvr(num1, ji, ji + ni) - bp(ni);
                // q3 >= 1: with q3 == 0 the difference W - 0 would be negative
                assert(q3 >= 1) by(nonlinear_arith) requires w - q3 * dd == lvr(num1, ji, ji + ni) - bp(ni), lvr(num1, ji, ji + ni) < bp(ni), w >= 0, q3 >= 0;
                lemma_small_mod((q3 - 1) as nat, B as nat);
                assert(q as int == q3 - 1);
                assert(0 <= wnew < dd);
                assert(forall|i: int| (0 <= i < ji || ji + ni <= i < ll) ==> num2[i] == num0[i]);
            }/*-*/
            // Expect carry because we flip sign back to positive.
            vassert ( (carry ) == ( 1 ) );
        }
        /*+*/let ghost num3 = numerator@;
        proof {
            assert(0 <= wnew < dd);
            assert(wnew == w - q as int * dd);
            assert(lvr(num3, ji, ji + ni) == wnew);
        }/*-*/

        // Store quotient in the unused bits of numerator
        numerator[j + n] = q;
        /*+*/proof {
            let num4 = numerator@;
            lemma_lvr_ext(num3, num4, ji, ji + ni);
            lemma_step_done(num0, num4, ji, ni, ll, nn, qacc, dd, low, w, wnew, q as int);
            qacc = qacc + bp(ji) * q as int;
        }/*-*/
    }
    /*+*/proof {
        let num5 = numerator@;
        assert(nn == qacc * dd + lvr(num5, 0, ni));
        assert(dd * bp(0) == dd) by(nonlinear_arith) requires bp(0) == 1;
        assert(bp(0) * lvr(num5, ni, ll) == lvr(num5, ni, ll)) by(nonlinear_arith) requires bp(0) == 1;
    }/*-*/
}
//@ end

} // verus!
fn main() {}

// unit mul_redc: src/algorithms/mul_redc.rs — CIOS Montgomery multiplication for all N  (C11)
#![allow(non_snake_case)]
use vstd::prelude::*;
use vstd::arithmetic::power2::*;
use vstd::arithmetic::mul::*;
use vstd::arithmetic::div_mod::*;
use vstd::bits::*;
use core::cmp::Ordering;
use vstd::std_specs::cmp::*;
verus! {
//@ include lib/base.rs
//@ include lib/lvr.rs

// value of the first n limbs
pub open spec fn lvi(s: Seq<u64>, n: int) -> int decreases n {
    if n <= 0 { 0 } else { lvi(s, n - 1) + s[n - 1] as int * bp(n - 1) }
}
pub proof fn lemma_lvi_ext(s: Seq<u64>, t: Seq<u64>, n: int)
    requires n <= s.len(), n <= t.len(), forall|j: int| 0 <= j < n ==> s[j] == t[j]
    ensures lvi(s, n) == lvi(t, n)
    decreases n
{ if n > 0 { lemma_lvi_ext(s, t, n - 1); } }
pub proof fn lemma_lvi_bound(s: Seq<u64>, n: int)
    requires 0 <= n <= s.len()
    ensures 0 <= lvi(s, n) < bp(n)
    decreases n
{
    if n > 0 {
        lemma_lvi_bound(s, n - 1);
        lemma_bp_pos(n - 1);
        assert(s[n - 1] as int * bp(n - 1) <= (B - 1) * bp(n - 1)) by(nonlinear_arith) requires s[n - 1] as int <= B - 1, bp(n - 1) >= 1;
        assert(s[n - 1] as int * bp(n - 1) >= 0) by(nonlinear_arith) requires s[n - 1] as int >= 0, bp(n - 1) >= 1;
        assert((B - 1) * bp(n - 1) + bp(n - 1) == B * bp(n - 1)) by(nonlinear_arith);
    }
}
pub proof fn lemma_lvi_zero(s: Seq<u64>, n: int)
    requires n <= s.len(), forall|j: int| 0 <= j < n ==> s[j] == 0
    ensures lvi(s, n) == 0
    decreases n
{ if n > 0 { lemma_lvi_zero(s, n - 1); } }

// lvi (top-down) and lvr (bottom-up) denote the same number
pub proof fn lemma_lvi_is_lvr(s: Seq<u64>, n: int)
    requires 0 <= n <= s.len()
    ensures lvi(s, n) == lvr(s, 0, n)
    decreases n
{
    if n > 0 {
        lemma_lvi_is_lvr(s, n - 1);
        lemma_lvr_push(s, 0, n - 1);
        assert(s[n - 1] as int * bp(n - 1) == bp(n - 1) * s[n - 1] as int) by(nonlinear_arith);
    }
}

//@ import add carrying_add
//@ import kernels cmp
pub assume_specification [<Ordering as PartialEq>::eq] (a: &Ordering, b: &Ordering) -> (r: bool)
    ensures r == (*a == *b);
pub open spec fn ord_of(a: int, b: int) -> Ordering {
    if a < b { Ordering::Less } else if a == b { Ordering::Equal } else { Ordering::Greater }
}

//@ extract src/algorithms/mul_redc.rs fn carrying_mul_add

pub fn carrying_mul_add(lhs: u64, rhs: u64, add: u64, carry: u64) -> /*+*/(r:/*-*/ (u64, u64)/*+*/)
    ensures r.0 as int + r.1 as int * B == lhs as int * rhs as int + add as int + carry as int/*-*/
{
    /*+*/proof {
        assert((lhs as int) * (rhs as int) <= 0xffff_ffff_ffff_ffff * 0xffff_ffff_ffff_ffff) by(nonlinear_arith)
            requires 0 <= lhs as int <= 0xffff_ffff_ffff_ffff, 0 <= rhs as int <= 0xffff_ffff_ffff_ffff;
        assert((lhs as int) * (rhs as int) >= 0) by(nonlinear_arith) requires lhs as int >= 0, rhs as int >= 0;
    }/*-*/
    let wide = (lhs as u128)
        .wrapping_mul(rhs as u128)
        .wrapping_add(add as u128)
        .wrapping_add(carry as u128);
    /*+*/proof {
        let p = lhs as int * rhs as int;
        let bb: int = B * B; assert(B * B == 0x1_0000_0000_0000_0000_0000_0000_0000_0000) by(compute_only);
        lemma_small_mod(p as nat, bb as nat);
        lemma_small_mod((p + add as int) as nat, bb as nat);
        lemma_small_mod((p + add as int + carry as int) as nat, bb as nat);
        assert(wide as int == p + add as int + carry as int);
        lemma_u128_shr_is_div(wide, 64); vstd::arithmetic::power2::lemma2_to64();
        assert(wide as u64 == (wide % 0x1_0000_0000_0000_0000u128) as u64) by(bit_vector);
        lemma_fundamental_div_mod(wide as int, B);
        assert(B * ((wide as int) / B) == ((wide as int) / B) * B) by(nonlinear_arith);
    }/*-*/
    (wide as u64, (wide >> 64) as u64)
}
//@ end

pub open spec fn reduce_post(r: Seq<u64>, value: Seq<u64>, modulus: Seq<u64>, carry: bool, n: int) -> bool {
    &&& lvi(r, n) < lvi(modulus, n)
    &&& (lvi(r, n) == lvi(value, n) + (if carry { bp(n) } else { 0 })
            || lvi(r, n) == lvi(value, n) + (if carry { bp(n) } else { 0 }) - lvi(modulus, n))
}
pub open spec fn redc_post(r: Seq<u64>, ab: int, mv: int, n: int) -> bool {
    &&& lvi(r, n) < mv
    &&& exists|mu: int| #[trigger] redc_rel(bp(n) * lvi(r, n), ab, mv, mu)
}

// ASSUMED (label A): sub + reduce1_carry iterate with zip() over arrays by value, outside the Verus subset.
// Contract: for x = value + carry*B^N < 2m the result is x or x - m, and < m. Discharged per N in {1,2,3,4} by Kani (c11::c11_reduce1_*).
#[verifier::external_body]
pub fn reduce1_carry<const N: usize>(value: [u64; N], modulus: [u64; N], carry: bool) -> (r: [u64; N])
    requires lvi(value@, N as int) + (if carry { bp(N as int) } else { 0 }) < 2 * lvi(modulus@, N as int)
    ensures reduce_post(r@, value@, modulus@, carry, N as int)
{ unimplemented!() }

// one inner step of the CIOS row, i >= 1
pub proof fn lemma_row_step(s_i: int, lvres: int, c1: int, c2: int, bpi1: int, r0i: int, ai: int, mi: int, b: int, m: int,
                            v1: int, c1n: int, v2: int, c2n: int)
    requires
        s_i == B * lvres + (c1 + c2) * (B * bpi1),
        v1 + c1n * B == ai * b + r0i + c1,
        v2 + c2n * B == mi * m + v1 + c2,
    ensures
        s_i + (r0i + ai * b + mi * m) * (B * bpi1) == B * (lvres + v2 * bpi1) + (c1n + c2n) * (B * (B * bpi1))
{
    assert(s_i + (r0i + ai * b + mi * m) * (B * bpi1) == B * (lvres + v2 * bpi1) + (c1n + c2n) * (B * (B * bpi1))) by(nonlinear_arith)
        requires s_i == B * lvres + (c1 + c2) * (B * bpi1), v1 + c1n * B == ai * b + r0i + c1, v2 + c2n * B == mi * m + v1 + c2;
}

pub open spec fn redc_rel(lhs: int, ab: int, mv: int, mu: int) -> bool { lhs == ab + mv * mu }

//@ extract src/algorithms/mul_redc.rs fn mul_redc rewrite="for b in b {" => "for b_idx in 0..N { let b = b[b_idx];" #1
pub fn mul_redc<const N: usize>(a: [u64; N], b: [u64; N], modulus: [u64; N], inv: u64) -> /*+*/(res:/*-*/ [u64; N]/*+*/)
    requires
        N >= 1,
        (inv as int * modulus@[0] as int) % B == B - 1,
        lvi(a@, N as int) < lvi(modulus@, N as int),
        lvi(b@, N as int) < lvi(modulus@, N as int),
    ensures
        redc_post(res@, lvi(a@, N as int) * lvi(b@, N as int), lvi(modulus@, N as int), N as int)/*-*/
{
    /*+*/proof {
        lemma_lvi_is_lvr(a@, N as int); lemma_lvi_is_lvr(b@, N as int); lemma_lvi_is_lvr(modulus@, N as int);
        assert(ord_of(lvr(a@, 0, N as int), lvr(modulus@, 0, N as int)) == Ordering::Less);
        assert(a@.len() == N && modulus@.len() == N);
    }/*-*/
    vassert ( (inv.wrapping_mul(modulus[0]) ) == ( u64::MAX ) );
    vassert ( (cmp(&a, &modulus) ) == ( Ordering::Less ) );
    vassert ( (cmp(&b, &modulus) ) == ( Ordering::Less ) );
    /*+*/let ghost av = lvi(a@, N as int);
    let ghost mv = lvi(modulus@, N as int);
    let ghost n = N as int;/*-*/
    let mut result = [0; N];
    let mut carry = false;
    /*+*/let ghost bs = b@;
    let ghost mut mu: int = 0;     // bp(k)*Acc == av*lvi(b,k) + mv*mu
    proof {
        lemma_lvi_zero(result@, n);
        lemma_lvi_bound(modulus@, n); lemma_lvi_bound(a@, n);
        assert(av * 0 + mv * 0 == 0) by(nonlinear_arith);
        assert(lvi(bs, 0) == 0);
        assert(bp(0) * 0 == 0) by(nonlinear_arith);
    }/*-*/
    for b_idx in 0 .. N
        /*+*/invariant
            bs == b@,
            n == N, N >= 1, av == lvi(a@, n), mv == lvi(modulus@, n), 0 <= av < mv, mv < bp(n),
            (inv as int * modulus@[0] as int) % B == B - 1,
            (modulus@[n - 1] as int) < 0x7fff_ffff_ffff_ffff ==> !carry,
            lvi(result@, n) + (if carry { bp(n) } else { 0 }) < 2 * mv,
            bp(b_idx as int) * (lvi(result@, n) + (if carry { bp(n) } else { 0 })) == av * lvi(bs, b_idx as int) + mv * mu,/*-*/
    {
        let b = b [ b_idx ] ;
        /*+*/let ghost r0 = result@;
        let ghost acc_old = lvi(r0, n) + (if carry { bp(n) } else { 0 });/*-*/
        let mut m = 0;
        let mut carry_1 = 0;
        let mut carry_2 = 0;
        for i in 0..N
            /*+*/invariant
                n == N, N >= 1,
                (inv as int * modulus@[0] as int) % B == B - 1,
                forall|l: int| (if i == 0 { 0 } else { i as int - 1 }) <= l < n ==> result@[l] == r0[l],
                i == 0 ==> carry_1 == 0 && carry_2 == 0,
                i >= 1 ==> lvi(r0, i as int) + lvi(a@, i as int) * b as int + lvi(modulus@, i as int) * m as int
                            == B * lvi(result@, i as int - 1) + (carry_1 as int + carry_2 as int) * bp(i as int),/*-*/
        {
            /*+*/let ghost res_before = result@;
            let ghost c1 = carry_1 as int; let ghost c2 = carry_2 as int;/*-*/
            // Add limb product
            let (value, next_carry) = carrying_mul_add(a[i], b, result[i], carry_1);
            /*+*/let ghost v1 = value as int;/*-*/
            carry_1 = next_carry;

            if i == 0 {
                // Compute reduction factor
                m = value.wrapping_mul(inv);
            }

            // Add m * modulus to acc to clear next_result[0]
            let (value, next_carry) = carrying_mul_add(modulus[i], m, value, carry_2);
            carry_2 = next_carry;

            // Shift result
            if i > 0 {
                result[i - 1] = value;
            } else {
                /*+*/proof {
                    // value == 0 : modulus[0]*m + v1 == v1*(1 + modulus[0]*inv) == 0 (mod B)
                    let m0 = modulus@[0] as int;
                    assert(m as int == (v1 * inv as int) % B);
                    lemma_mul_mod_noop_right(m0, v1 * inv as int, B);
                    assert((m0 * m as int) % B == (m0 * (v1 * inv as int)) % B);
                    assert(m0 * (v1 * inv as int) == v1 * (inv as int * m0)) by(nonlinear_arith);
                    lemma_mul_mod_noop_right(v1, inv as int * m0, B);
                    assert((v1 * (inv as int * m0)) % B == (v1 * (B - 1)) % B);
                    assert(v1 * (B - 1) + v1 == v1 * B) by(nonlinear_arith);
                    lemma_mod_multiples_basic(v1, B);
                    // (m0*m + v1) % B == (v1*(B-1) + v1) % B == 0
                    lemma_add_mod_noop(m0 * m as int, v1, B);
                    lemma_add_mod_noop(v1 * (B - 1), v1, B);
                    assert((m0 * m as int + v1) % B == 0);
                    // value + carry_2*B == m0*m + v1  =>  value == 0
                    lemma_mod_multiples_vanish(carry_2 as int, value as int, B);
                    assert(B * carry_2 as int == carry_2 as int * B) by(nonlinear_arith);
                    lemma_small_mod(value as nat, B as nat);
                    assert(value == 0);
                    // establish the i=1 invariant
                    assert(bp(1) == B) by { assert(bp(0) == 1); assert(B * 1 == B); }
                    assert(lvi(r0, 1) == r0[0] as int) by { assert(bp(0) == 1); assert(lvi(r0, 0) == 0); assert(r0[0] as int * 1 == r0[0] as int) by(nonlinear_arith); }
                    assert(lvi(a@, 1) == a@[0] as int) by { assert(bp(0) == 1); assert(lvi(a@, 0) == 0); assert(a@[0] as int * 1 == a@[0] as int) by(nonlinear_arith); }
                    assert(lvi(modulus@, 1) == m0) by { assert(bp(0) == 1); assert(lvi(modulus@, 0) == 0); assert(m0 * 1 == m0) by(nonlinear_arith); }
                    assert(lvi(result@, 0) == 0);
                    assert(r0[0] as int + a@[0] as int * b as int + m0 * m as int == B * 0 + (carry_1 as int + carry_2 as int) * B) by(nonlinear_arith)
                        requires v1 + carry_1 as int * B == a@[0] as int * b as int + r0[0] as int + 0,
                                 0 + carry_2 as int * B == m0 * m as int + v1 + 0;
                }/*-*/
                vassert ( (value ) == ( 0 ) );
            }
            /*+*/proof {
                if i > 0 {
                    let ii = i as int;
                    lemma_lvi_ext(res_before, result@, ii - 1);
                    assert(bp(ii) == B * bp(ii - 1));
                    assert(bp(ii + 1) == B * bp(ii));
                    lemma_row_step(
                        lvi(r0, ii) + lvi(a@, ii) * b as int + lvi(modulus@, ii) * m as int,
                        lvi(res_before, ii - 1), c1, c2, bp(ii - 1),
                        r0[ii] as int, a@[ii] as int, modulus@[ii] as int, b as int, m as int,
                        v1, carry_1 as int, value as int, carry_2 as int);
                    // unfold lv at ii+1 on the three sequences and lvi(result, ii)
                    assert(lvi(r0, ii + 1) == lvi(r0, ii) + r0[ii] as int * bp(ii));
                    assert(lvi(a@, ii + 1) == lvi(a@, ii) + a@[ii] as int * bp(ii));
                    assert(lvi(modulus@, ii + 1) == lvi(modulus@, ii) + modulus@[ii] as int * bp(ii));
                    assert(lvi(result@, ii) == lvi(result@, ii - 1) + value as int * bp(ii - 1));
                    assert(lvi(r0, ii + 1) + lvi(a@, ii + 1) * b as int + lvi(modulus@, ii + 1) * m as int
                        == (lvi(r0, ii) + lvi(a@, ii) * b as int + lvi(modulus@, ii) * m as int)
                           + (r0[ii] as int + a@[ii] as int * b as int + modulus@[ii] as int * m as int) * (B * bp(ii - 1))) by(nonlinear_arith)
                        requires lvi(r0, ii + 1) == lvi(r0, ii) + r0[ii] as int * bp(ii),
                                 lvi(a@, ii + 1) == lvi(a@, ii) + a@[ii] as int * bp(ii),
                                 lvi(modulus@, ii + 1) == lvi(modulus@, ii) + modulus@[ii] as int * bp(ii),
                                 bp(ii) == B * bp(ii - 1);
                }
            }/*-*/
        }
        /*+*/let ghost c1 = carry_1 as int; let ghost c2 = carry_2 as int;
        let ghost res_mid = result@;
        let ghost cin: int = if carry { 1 } else { 0 };/*-*/
        // Add carries
        let (value, next_carry) = carrying_add(carry_1, carry_2, carry);
        result[N - 1] = value;
        /*+*/let ghost nxt: int = if next_carry { 1 } else { 0 };
        let ghost acc_new = lvi(result@, n) + nxt * bp(n);
        proof {
            // S_N == B*lvi(res_mid, n-1) + (c1+c2)*bp(n)
            lemma_lvi_ext(res_mid, result@, n - 1);
            assert(lvi(result@, n) == lvi(result@, n - 1) + value as int * bp(n - 1));
            assert(bp(n) == B * bp(n - 1));
            lemma_bp_pos(n - 1);
            assert(acc_old == lvi(r0, n) + cin * bp(n)) by(nonlinear_arith) requires acc_old == lvi(r0, n) + (if carry { bp(n) } else { 0 }), cin == (if carry { 1int } else { 0 });
            assert(B * acc_new == acc_old + av * b as int + mv * m as int) by(nonlinear_arith)
                requires
                    lvi(r0, n) + av * b as int + mv * m as int == B * lvi(result@, n - 1) + (c1 + c2) * bp(n),
                    value as int + nxt * B == c1 + c2 + cin,
                    acc_new == lvi(result@, n - 1) + value as int * bp(n - 1) + nxt * bp(n),
                    bp(n) == B * bp(n - 1),
                    acc_old == lvi(r0, n) + cin * bp(n);
            // bound: acc_new < 2*mv
            assert(av * b as int <= (mv - 1) * (B - 1)) by(nonlinear_arith) requires 0 <= av <= mv - 1, 0 <= b as int <= B - 1;
            assert(mv * m as int <= mv * (B - 1)) by(nonlinear_arith) requires mv >= 0, 0 <= m as int <= B - 1;
            assert(acc_new < 2 * mv) by(nonlinear_arith)
                requires B * acc_new == acc_old + av * b as int + mv * m as int, acc_old < 2 * mv,
                         av * b as int <= (mv - 1) * (B - 1), mv * m as int <= mv * (B - 1), mv >= 1, B == 0x1_0000_0000_0000_0000;
            // relation
            assert(bp(b_idx as int + 1) == B * bp(b_idx as int));
            assert(lvi(bs, b_idx as int + 1) == lvi(bs, b_idx as int) + b as int * bp(b_idx as int));
            assert(bp(b_idx as int + 1) * acc_new == av * lvi(bs, b_idx as int + 1) + mv * (mu + m as int * bp(b_idx as int))) by(nonlinear_arith)
                requires bp(b_idx as int + 1) == B * bp(b_idx as int),
                         B * acc_new == acc_old + av * b as int + mv * m as int,
                         bp(b_idx as int) * acc_old == av * lvi(bs, b_idx as int) + mv * mu,
                         lvi(bs, b_idx as int + 1) == lvi(bs, b_idx as int) + b as int * bp(b_idx as int);
            mu = mu + m as int * bp(b_idx as int);
            lemma_lvi_bound(result@, n);
        }/*-*/
        if modulus[N - 1] >= 0x7fff_ffff_ffff_ffff {
            carry = next_carry;
        } else {
            /*+*/proof {
                // 2*mv < bp(n)  ==> next_carry is false, and carry was false
                lemma_lvi_bound(modulus@, n - 1);
                assert(mv == lvi(modulus@, n - 1) + modulus@[n - 1] as int * bp(n - 1));
                assert(2 * mv < bp(n)) by(nonlinear_arith)
                    requires mv == lvi(modulus@, n - 1) + modulus@[n - 1] as int * bp(n - 1), lvi(modulus@, n - 1) < bp(n - 1),
                             modulus@[n - 1] as int <= 0x7fff_ffff_ffff_fffe, bp(n) == B * bp(n - 1), bp(n - 1) >= 1, B == 0x1_0000_0000_0000_0000;
                assert(!next_carry) by(nonlinear_arith)
                    requires acc_new == lvi(result@, n) + nxt * bp(n), acc_new < 2 * mv, 2 * mv < bp(n), lvi(result@, n) >= 0, nxt == (if next_carry { 1int } else { 0 });
                assert(!carry);
            }/*-*/
            vassert (!next_carry );
        }
        /*+*/proof {
            assert(lvi(result@, n) + (if carry { bp(n) } else { 0 }) == acc_new) by(nonlinear_arith)
                requires acc_new == lvi(result@, n) + nxt * bp(n), (carry == next_carry), nxt == (if next_carry { 1int } else { 0 });
        }/*-*/
    }
    // Compute reduced product.
    /*+*/let ghost acc = lvi(result@, n) + (if carry { bp(n) } else { 0 });
    proof {
        assert forall|r: Seq<u64>| #[trigger] reduce_post(r, result@, modulus@, carry, n) implies redc_post(r, av * lvi(bs, n), mv, n) by {
            if lvi(r, n) == acc {
                assert(redc_rel(bp(n) * lvi(r, n), av * lvi(bs, n), mv, mu));
            } else {
                assert(bp(n) * (acc - mv) == av * lvi(bs, n) + mv * (mu - bp(n))) by(nonlinear_arith)
                    requires bp(n) * acc == av * lvi(bs, n) + mv * mu;
                assert(redc_rel(bp(n) * lvi(r, n), av * lvi(bs, n), mv, mu - bp(n)));
            }
        }
    }/*-*/
    reduce1_carry(result, modulus, carry)
}
//@ end

} // verus!
fn main() {}

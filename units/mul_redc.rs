// unit mul_redc: src/algorithms/mul_redc.rs — CIOS Montgomery multiplication for all N  (C11)
#![allow(non_snake_case)]
use vstd::prelude::*;
use vstd::arithmetic::power2::*;
use vstd::arithmetic::mul::*;
use vstd::arithmetic::div_mod::*;
use vstd::bits::*;
use core::cmp::Ordering;
use vstd::std_specs::cmp::*;
verus! {
//@ include lib/base.rs
//@ include lib/lvr.rs

//@ include lib/lvi.rs

//@ import add carrying_add
//@ import kernels cmp
pub assume_specification [<Ordering as PartialEq>::eq] (a: &Ordering, b: &Ordering) -> (r: bool)
    ensures r == (*a == *b);
pub open spec fn ord_of(a: int, b: int) -> Ordering {
    if a < b { Ordering::Less } else if a == b { Ordering::Equal } else { Ordering::Greater }
}

//@ extract src/algorithms/mul_redc.rs fn carrying_mul_add

pub fn carrying_mul_add(lhs: u64, rhs: u64, add: u64, carry: u64) -> /*+*/(r:/*-*/ (u64, u64)/*+*/)
    ensures r.0 as int + r.1 as int * B == lhs as int * rhs as int + add as int + carry as int/*-*/
{
    /*+*/proof {
        assert((lhs as int) * (rhs as int) <= 0xffff_ffff_ffff_ffff * 0xffff_ffff_ffff_ffff) by(nonlinear_arith)
            requires 0 <= lhs as int <= 0xffff_ffff_ffff_ffff, 0 <= rhs as int <= 0xffff_ffff_ffff_ffff;
        assert((lhs as int) * (rhs as int) >= 0) by(nonlinear_arith) requires lhs as int >= 0, rhs as int >= 0;
    }/*-*/
    let wide = (lhs as u128)
        .wrapping_mul(rhs as u128)
        .wrapping_add(add as u128)
        .wrapping_add(carry as u128);
    /*+*/proof {
        let p = lhs as int * rhs as int;
        let bb: int = B * B; assert(B * B == 0x1_0000_0000_0000_0000_0000_0000_0000_0000) by(compute_only);
        lemma_small_mod(p as nat, bb as nat);
        lemma_small_mod((p + add as int) as nat, bb as nat);
        lemma_small_mod((p + add as int + carry as int) as nat, bb as nat);
        assert(wide as int == p + add as int + carry as int);
        lemma_u128_shr_is_div(wide, 64); vstd::arithmetic::power2::lemma2_to64();
        assert(wide as u64 == (wide % 0x1_0000_0000_0000_0000u128) as u64) by(bit_vector);
        lemma_fundamental_div_mod(wide as int, B);
        assert(B * ((wide as int) / B) == ((wide as int) / B) * B) by(nonlinear_arith);
    }/*-*/
    (wide as u64, (wide >> 64) as u64)
}
//@ end

//@ import add borrowing_sub

// sub / reduce1_carry iterate with zip() over arrays by value, which is outside the Verus subset: the loop header is rewritten
// (declared rewrites R below, reported as normalisations on every run) into the index loop with the same element order.
//@ extract src/algorithms/mul_redc.rs fn sub rewrite="for ( result , ( lhs , rhs ) ) in zip ( & mut result , zip ( lhs , rhs ) ) {" => "for idx in 0..N { let (lhs, rhs) = (lhs[idx], rhs[idx]);" #1 rewrite="* result = value ;" => "result[idx] = value;" #1
pub fn sub<const N: usize>(lhs: [u64; N], rhs: [u64; N]) -> /*+*/(r:/*-*/ ([u64; N], bool)/*+*/)
    ensures lvi(r.0@, N as int) - (if r.1 { bp(N as int) } else { 0 }) == lvi(lhs@, N as int) - lvi(rhs@, N as int)/*-*/
{
    /*+*/let ghost ls = lhs@; let ghost rs = rhs@;/*-*/
    let mut result = [0; N];
    let mut borrow = false;
    /*+*/proof { assert(b2n(false) * bp(0) == 0) by(nonlinear_arith) requires b2n(false) == 0; }/*-*/
    for idx in 0..N
        /*+*/invariant
            ls == lhs@, rs == rhs@,
            lvi(result@, idx as int) - b2n(borrow) * bp(idx as int) == lvi(ls, idx as int) - lvi(rs, idx as int),/*-*/
    {
        let (lhs, rhs) = (lhs[idx], rhs[idx]);
        /*+*/let ghost res_before = result@; let ghost b0 = b2n(borrow) as int;/*-*/
        let (value, next_borrow) = borrowing_sub(lhs, rhs, borrow);
        result[idx] = value;
        borrow = next_borrow;
        /*+*/proof {
            let ii = idx as int;
            lemma_lvi_ext(res_before, result@, ii);
            assert(bp(ii + 1) == B * bp(ii));
            assert(lvi(result@, ii + 1) == lvi(result@, ii) + value as int * bp(ii));
            assert(lvi(ls, ii + 1) == lvi(ls, ii) + ls[ii] as int * bp(ii));
            assert(lvi(rs, ii + 1) == lvi(rs, ii) + rs[ii] as int * bp(ii));
            let b1 = b2n(borrow) as int;
            assert(lvi(result@, ii + 1) - b1 * (B * bp(ii)) == lvi(ls, ii + 1) - lvi(rs, ii + 1)) by(nonlinear_arith)
                requires lvi(res_before, ii) - b0 * bp(ii) == lvi(ls, ii) - lvi(rs, ii),
                         lvi(result@, ii + 1) == lvi(res_before, ii) + value as int * bp(ii),
                         lvi(ls, ii + 1) == lvi(ls, ii) + ls[ii] as int * bp(ii),
                         lvi(rs, ii + 1) == lvi(rs, ii) + rs[ii] as int * bp(ii),
                         value as int - b1 * B == ls[ii] as int - rs[ii] as int - b0;
        }/*-*/
    }
    /*+*/proof {
        assert(b2n(borrow) * bp(N as int) == (if borrow { bp(N as int) } else { 0 })) by(nonlinear_arith) requires b2n(borrow) == (if borrow { 1nat } else { 0nat });
    }/*-*/
    (result, borrow)
}
//@ end

//@ extract src/algorithms/mul_redc.rs fn reduce1_carry bools=carry,borrow
pub fn reduce1_carry<const N: usize>(value: [u64; N], modulus: [u64; N], carry: bool) -> /*+*/(r:/*-*/ [u64; N]/*+*/)
    requires lvi(value@, N as int) + (if carry { bp(N as int) } else { 0 }) < 2 * lvi(modulus@, N as int)
    ensures reduce_post(r@, value@, modulus@, carry, N as int)/*-*/
{
    /*+*/proof { lemma_lvi_bound(value@, N as int); lemma_lvi_bound(modulus@, N as int); }/*-*/
    let (reduced, borrow) = sub(value, modulus);
    /*+*/proof { lemma_lvi_bound(reduced@, N as int); }/*-*/
    if carry || !borrow {
        reduced
    } else {
        value
    }
}
//@ end

// one inner step of the CIOS row, i >= 1
pub proof fn lemma_row_step(s_i: int, lvres: int, c1: int, c2: int, bpi1: int, r0i: int, ai: int, mi: int, b: int, m: int,
                            v1: int, c1n: int, v2: int, c2n: int)
    requires
        s_i == B * lvres + (c1 + c2) * (B * bpi1),
        v1 + c1n * B == ai * b + r0i + c1,
        v2 + c2n * B == mi * m + v1 + c2,
    ensures
        s_i + (r0i + ai * b + mi * m) * (B * bpi1) == B * (lvres + v2 * bpi1) + (c1n + c2n) * (B * (B * bpi1))
{
    assert(s_i + (r0i + ai * b + mi * m) * (B * bpi1) == B * (lvres + v2 * bpi1) + (c1n + c2n) * (B * (B * bpi1))) by(nonlinear_arith)
        requires s_i == B * lvres + (c1 + c2) * (B * bpi1), v1 + c1n * B == ai * b + r0i + c1, v2 + c2n * B == mi * m + v1 + c2;
}


//@ extract src/algorithms/mul_redc.rs fn mul_redc rewrite="for b in b {" => "for b_idx in 0..N { let b = b[b_idx];" #1
pub fn mul_redc<const N: usize>(a: [u64; N], b: [u64; N], modulus: [u64; N], inv: u64) -> /*+*/(res:/*-*/ [u64; N]/*+*/)
    requires
        N >= 1,
        (inv as int * modulus@[0] as int) % B == B - 1,
        lvi(a@, N as int) < lvi(modulus@, N as int),
        lvi(b@, N as int) < lvi(modulus@, N as int),
    ensures
        redc_post(res@, lvi(a@, N as int) * lvi(b@, N as int), lvi(modulus@, N as int), N as int)/*-*/
{
    /*+*/proof {
        lemma_lvi_is_lvr(a@, N as int); lemma_lvi_is_lvr(b@, N as int); lemma_lvi_is_lvr(modulus@, N as int);
        assert(ord_of(lvr(a@, 0, N as int), lvr(modulus@, 0, N as int)) == Ordering::Less);
        assert(a@.len() == N && modulus@.len() == N);
    }/*-*/
    vassert ( (inv.wrapping_mul(modulus[0]) ) == ( u64::MAX ) );
    vassert ( (cmp(&a, &modulus) ) == ( Ordering::Less ) );
    vassert ( (cmp(&b, &modulus) ) == ( Ordering::Less ) );
    /*+*/let ghost av = lvi(a@, N as int);
    let ghost mv = lvi(modulus@, N as int);
    let ghost n = N as int;/*-*/
    let mut result = [0; N];
    let mut carry = false;
    /*+*/let ghost bs = b@;
    let ghost mut mu: int = 0;     // bp(k)*Acc == av*lvi(b,k) + mv*mu
    proof {
        lemma_lvi_zero(result@, n);
        lemma_lvi_bound(modulus@, n); lemma_lvi_bound(a@, n);
        assert(av * 0 + mv * 0 == 0) by(nonlinear_arith);
        assert(lvi(bs, 0) == 0);
        assert(bp(0) * 0 == 0) by(nonlinear_arith);
    }/*-*/
    for b_idx in 0 .. N
        /*+*/invariant
            bs == b@,
            n == N, N >= 1, av == lvi(a@, n), mv == lvi(modulus@, n), 0 <= av < mv, mv < bp(n),
            (inv as int * modulus@[0] as int) % B == B - 1,
            (modulus@[n - 1] as int) < 0x7fff_ffff_ffff_ffff ==> !carry,
            lvi(result@, n) + (if carry { bp(n) } else { 0 }) < 2 * mv,
            bp(b_idx as int) * (lvi(result@, n) + (if carry { bp(n) } else { 0 })) == av * lvi(bs, b_idx as int) + mv * mu,/*-*/
    {
        let b = b [ b_idx ] ;
        /*+*/let ghost r0 = result@;
        let ghost acc_old = lvi(r0, n) + (if carry { bp(n) } else { 0 });/*-*/
        let mut m = 0;
        let mut carry_1 = 0;
        let mut carry_2 = 0;
        for i in 0..N
            /*+*/invariant
                n == N, N >= 1,
                (inv as int * modulus@[0] as int) % B == B - 1,
                forall|l: int| (if i == 0 { 0 } else { i as int - 1 }) <= l < n ==> result@[l] == r0[l],
                i == 0 ==> carry_1 == 0 && carry_2 == 0,
                i >= 1 ==> lvi(r0, i as int) + lvi(a@, i as int) * b as int + lvi(modulus@, i as int) * m as int
                            == B * lvi(result@, i as int - 1) + (carry_1 as int + carry_2 as int) * bp(i as int),/*-*/
        {
            /*+*/let ghost res_before = result@;
            let ghost c1 = carry_1 as int; let ghost c2 = carry_2 as int;/*-*/
            // Add limb product
            let (value, next_carry) = carrying_mul_add(a[i], b, result[i], carry_1);
            /*+*/let ghost v1 = value as int;/*-*/
            carry_1 = next_carry;

            if i == 0 {
                // Compute reduction factor
                m = value.wrapping_mul(inv);
            }

            // Add m * modulus to acc to clear next_result[0]
            let (value, next_carry) = carrying_mul_add(modulus[i], m, value, carry_2);
            carry_2 = next_carry;

            // Shift result
            if i > 0 {
                result[i - 1] = value;
            } else {
                /*+*/proof {
                    // value == 0 : modulus[0]*m + v1 == v1*(1 + modulus[0]*inv) == 0 (mod B)
                    let m0 = modulus@[0] as int;
                    assert(m as int == (v1 * inv as int) % B);
                    lemma_mul_mod_noop_right(m0, v1 * inv as int, B);
                    assert((m0 * m as int) % B == (m0 * (v1 * inv as int)) % B);
                    assert(m0 * (v1 * inv as int) == v1 * (inv as int * m0)) by(nonlinear_arith);
                    lemma_mul_mod_noop_right(v1, inv as int * m0, B);
                    assert((v1 * (inv as int * m0)) % B == (v1 * (B - 1)) % B);
                    assert(v1 * (B - 1) + v1 == v1 * B) by(nonlinear_arith);
                    lemma_mod_multiples_basic(v1, B);
                    // (m0*m + v1) % B == (v1*(B-1) + v1) % B == 0
                    lemma_add_mod_noop(m0 * m as int, v1, B);
                    lemma_add_mod_noop(v1 * (B - 1), v1, B);
                    assert((m0 * m as int + v1) % B == 0);
                    // value + carry_2*B == m0*m + v1  =>  value == 0
                    lemma_mod_multiples_vanish(carry_2 as int, value as int, B);
                    assert(B * carry_2 as int == carry_2 as int * B) by(nonlinear_arith);
                    lemma_small_mod(value as nat, B as nat);
                    assert(value == 0);
                    // establish the i=1 invariant
                    assert(bp(1) == B) by { assert(bp(0) == 1); assert(B * 1 == B); }
                    assert(lvi(r0, 1) == r0[0] as int) by { assert(bp(0) == 1); assert(lvi(r0, 0) == 0); assert(r0[0] as int * 1 == r0[0] as int) by(nonlinear_arith); }
                    assert(lvi(a@, 1) == a@[0] as int) by { assert(bp(0) == 1); assert(lvi(a@, 0) == 0); assert(a@[0] as int * 1 == a@[0] as int) by(nonlinear_arith); }
                    assert(lvi(modulus@, 1) == m0) by { assert(bp(0) == 1); assert(lvi(modulus@, 0) == 0); assert(m0 * 1 == m0) by(nonlinear_arith); }
                    assert(lvi(result@, 0) == 0);
                    assert(r0[0] as int + a@[0] as int * b as int + m0 * m as int == B * 0 + (carry_1 as int + carry_2 as int) * B) by(nonlinear_arith)
                        requires v1 + carry_1 as int * B == a@[0] as int * b as int + r0[0] as int + 0,
                                 0 + carry_2 as int * B == m0 * m as int + v1 + 0;
                }/*-*/
                vassert ( (value ) == ( 0 ) );
            }
            /*+*/proof {
                if i > 0 {
                    let ii = i as int;
                    lemma_lvi_ext(res_before, result@, ii - 1);
                    assert(bp(ii) == B * bp(ii - 1));
                    assert(bp(ii + 1) == B * bp(ii));
                    lemma_row_step(
                        lvi(r0, ii) + lvi(a@, ii) * b as int + lvi(modulus@, ii) * m as int,
                        lvi(res_before, ii - 1), c1, c2, bp(ii - 1),
                        r0[ii] as int, a@[ii] as int, modulus@[ii] as int, b as int, m as int,
                        v1, carry_1 as int, value as int, carry_2 as int);
                    // unfold lv at ii+1 on the three sequences and lvi(result, ii)
                    assert(lvi(r0, ii + 1) == lvi(r0, ii) + r0[ii] as int * bp(ii));
                    assert(lvi(a@, ii + 1) == lvi(a@, ii) + a@[ii] as int * bp(ii));
                    assert(lvi(modulus@, ii + 1) == lvi(modulus@, ii) + modulus@[ii] as int * bp(ii));
                    assert(lvi(result@, ii) == lvi(result@, ii - 1) + value as int * bp(ii - 1));
                    assert(lvi(r0, ii + 1) + lvi(a@, ii + 1) * b as int + lvi(modulus@, ii + 1) * m as int
                        == (lvi(r0, ii) + lvi(a@, ii) * b as int + lvi(modulus@, ii) * m as int)
                           + (r0[ii] as int + a@[ii] as int * b as int + modulus@[ii] as int * m as int) * (B * bp(ii - 1))) by(nonlinear_arith)
                        requires lvi(r0, ii + 1) == lvi(r0, ii) + r0[ii] as int * bp(ii),
                                 lvi(a@, ii + 1) == lvi(a@, ii) + a@[ii] as int * bp(ii),
                                 lvi(modulus@, ii + 1) == lvi(modulus@, ii) + modulus@[ii] as int * bp(ii),
                                 bp(ii) == B * bp(ii - 1);
                }
            }/*-*/
        }
        /*+*/let ghost c1 = carry_1 as int; let ghost c2 = carry_2 as int;
        let ghost res_mid = result@;
        let ghost cin: int = if carry { 1 } else { 0 };/*-*/
        // Add carries
        let (value, next_carry) = carrying_add(carry_1, carry_2, carry);
        result[N - 1] = value;
        /*+*/let ghost nxt: int = if next_carry { 1 } else { 0 };
        let ghost acc_new = lvi(result@, n) + nxt * bp(n);
        proof {
            // S_N == B*lvi(res_mid, n-1) + (c1+c2)*bp(n)
            lemma_lvi_ext(res_mid, result@, n - 1);
            assert(lvi(result@, n) == lvi(result@, n - 1) + value as int * bp(n - 1));
            assert(bp(n) == B * bp(n - 1));
            lemma_bp_pos(n - 1);
            assert(acc_old == lvi(r0, n) + cin * bp(n)) by(nonlinear_arith) requires acc_old == lvi(r0, n) + (if carry { bp(n) } else { 0 }), cin == (if carry { 1int } else { 0 });
            assert(B * acc_new == acc_old + av * b as int + mv * m as int) by(nonlinear_arith)
                requires
                    lvi(r0, n) + av * b as int + mv * m as int == B * lvi(result@, n - 1) + (c1 + c2) * bp(n),
                    value as int + nxt * B == c1 + c2 + cin,
                    acc_new == lvi(result@, n - 1) + value as int * bp(n - 1) + nxt * bp(n),
                    bp(n) == B * bp(n - 1),
                    acc_old == lvi(r0, n) + cin * bp(n);
            // bound: acc_new < 2*mv
            assert(av * b as int <= (mv - 1) * (B - 1)) by(nonlinear_arith) requires 0 <= av <= mv - 1, 0 <= b as int <= B - 1;
            assert(mv * m as int <= mv * (B - 1)) by(nonlinear_arith) requires mv >= 0, 0 <= m as int <= B - 1;
            assert(acc_new < 2 * mv) by(nonlinear_arith)
                requires B * acc_new == acc_old + av * b as int + mv * m as int, acc_old < 2 * mv,
                         av * b as int <= (mv - 1) * (B - 1), mv * m as int <= mv * (B - 1), mv >= 1, B == 0x1_0000_0000_0000_0000;
            // relation
            assert(bp(b_idx as int + 1) == B * bp(b_idx as int));
            assert(lvi(bs, b_idx as int + 1) == lvi(bs, b_idx as int) + b as int * bp(b_idx as int));
            {
                let k = b_idx as int; let w = bp(k); let ll = lvi(bs, k); let bi = b as int;
                lemma_mul_is_distributive_add(av, ll, bi * w);
                lemma_mul_is_associative(av, bi, w); lemma_mul_is_commutative(av * bi, w);
                lemma_mul_is_commutative(mv, m as int);
                lemma_scale_step(B, w, bp(k + 1), acc_new, acc_old, av * bi, m as int, mv, av * ll, av * lvi(bs, k + 1), w * (av * bi), mu);
            }
            mu = mu + m as int * bp(b_idx as int);
            lemma_lvi_bound(result@, n);
        }/*-*/
        if modulus[N - 1] >= 0x7fff_ffff_ffff_ffff {
            carry = next_carry;
        } else {
            /*+*/proof {
                // 2*mv < bp(n)  ==> next_carry is false, and carry was false
                lemma_lvi_bound(modulus@, n - 1);
                assert(mv == lvi(modulus@, n - 1) + modulus@[n - 1] as int * bp(n - 1));
                assert(2 * mv < bp(n)) by(nonlinear_arith)
                    requires mv == lvi(modulus@, n - 1) + modulus@[n - 1] as int * bp(n - 1), lvi(modulus@, n - 1) < bp(n - 1),
                             modulus@[n - 1] as int <= 0x7fff_ffff_ffff_fffe, bp(n) == B * bp(n - 1), bp(n - 1) >= 1, B == 0x1_0000_0000_0000_0000;
                assert(!next_carry) by(nonlinear_arith)
                    requires acc_new == lvi(result@, n) + nxt * bp(n), acc_new < 2 * mv, 2 * mv < bp(n), lvi(result@, n) >= 0, nxt == (if next_carry { 1int } else { 0 });
                assert(!carry);
            }/*-*/
            vassert (!next_carry );
        }
        /*+*/proof {
            assert(lvi(result@, n) + (if carry { bp(n) } else { 0 }) == acc_new) by(nonlinear_arith)
                requires acc_new == lvi(result@, n) + nxt * bp(n), (carry == next_carry), nxt == (if next_carry { 1int } else { 0 });
        }/*-*/
    }
    // Compute reduced product.
    /*+*/let ghost acc = lvi(result@, n) + (if carry { bp(n) } else { 0 });
    proof {
        assert forall|r: Seq<u64>| #[trigger] reduce_post(r, result@, modulus@, carry, n) implies redc_post(r, av * lvi(bs, n), mv, n) by {
            if lvi(r, n) == acc {
                assert(redc_rel(bp(n) * lvi(r, n), av * lvi(bs, n), mv, mu));
            } else {
                assert(bp(n) * (acc - mv) == av * lvi(bs, n) + mv * (mu - bp(n))) by(nonlinear_arith)
                    requires bp(n) * acc == av * lvi(bs, n) + mv * mu;
                assert(redc_rel(bp(n) * lvi(r, n), av * lvi(bs, n), mv, mu - bp(n)));
            }
        }
    }/*-*/
    reduce1_carry(result, modulus, carry)
}
//@ end

// ---- Montgomery squaring ----
pub assume_specification [u128::overflowing_add] (a: u128, b: u128) -> (r: (u128, bool))
    ensures r.0 as int == (a as int + b as int) % (B * B),
            r.1 == (a as int + b as int >= B * B);

//@ extract src/algorithms/mul_redc.rs fn carrying_double_mul_add bools=carry_1,carry_2
pub fn carrying_double_mul_add(
    lhs: u64,
    rhs: u64,
    add: u64,
    carry_lo: u64,
    carry_hi: bool,
) -> /*+*/(r:/*-*/ (u64, u64, bool)/*+*/)
    ensures r.0 as int + r.1 as int * B + (if r.2 { B * B } else { 0 })
        == 2 * (lhs as int * rhs as int) + add as int + carry_lo as int + (if carry_hi { B } else { 0 })/*-*/
{
    /*+*/let ghost bb: int = B * B;
    let ghost p = lhs as int * rhs as int;
    proof {
        assert(u128::MAX as int == B * B - 1) by(compute_only);
        assert(p <= 0xffff_ffff_ffff_ffff * 0xffff_ffff_ffff_ffff) by(nonlinear_arith)
            requires p == lhs as int * rhs as int, 0 <= lhs as int <= 0xffff_ffff_ffff_ffff, 0 <= rhs as int <= 0xffff_ffff_ffff_ffff;
        assert(p >= 0) by(nonlinear_arith) requires p == lhs as int * rhs as int, lhs as int >= 0, rhs as int >= 0;
        lemma_small_mod(p as nat, bb as nat);
    }/*-*/
    let wide = (lhs as u128).wrapping_mul(rhs as u128);
    /*+*/let ghost w0 = wide;/*-*/
    let (wide, carry_1) = wide.overflowing_add(wide);
    /*+*/let ghost w1 = wide;
    let ghost ch: u128 = carry_hi as u128;
    proof {
        assert(w0 as int == p);
        assert(ch == (if carry_hi { 1u128 } else { 0u128 }));
        assert(ch << 64 == (if carry_hi { 0x1_0000_0000_0000_0000u128 } else { 0u128 })) by(bit_vector)
            requires ch == (if carry_hi { 1u128 } else { 0u128 });
        lemma_small_mod((add as int + carry_lo as int) as nat, bb as nat);
        lemma_small_mod((add as int + carry_lo as int + (if carry_hi { B } else { 0 })) as nat, bb as nat);
    }/*-*/
    let carries = (add as u128)
        .wrapping_add(carry_lo as u128)
        .wrapping_add((carry_hi as u128) << 64);
    let (wide, carry_2) = wide.overflowing_add(carries);
    /*+*/proof {
        // stated over the mathematical values only (not over the names of the two carry flags)
        let cv = add as int + carry_lo as int + (if carry_hi { B } else { 0 });
        assert(carries as int == cv);
        let o1 = 2 * p >= bb;                 // the doubling overflows 2^128
        if o1 { lemma_fundamental_div_mod_converse(2 * p, bb, 1, 2 * p - bb); } else { lemma_small_mod((2 * p) as nat, bb as nat); }
        assert(w1 as int == (if o1 { 2 * p - bb } else { 2 * p }));
        let t = w1 as int + cv;
        let o2 = t >= bb;                     // adding the carries overflows 2^128
        if o2 { lemma_fundamental_div_mod_converse(t, bb, 1, t - bb); } else { lemma_small_mod(t as nat, bb as nat); }
        assert(wide as int == (if o2 { t - bb } else { t }));
        // the total is below 2*2^128, so at most one of the two additions overflows
        assert(!(o1 && o2));
        assert(wide as int + (if o1 || o2 { bb } else { 0 }) == 2 * p + cv);
        lemma_u128_shr_is_div(wide, 64); lemma2_to64();
        assert(wide as u64 == (wide % 0x1_0000_0000_0000_0000u128) as u64) by(bit_vector);
        lemma_fundamental_div_mod(wide as int, B);
        assert(B * ((wide as int) / B) == ((wide as int) / B) * B) by(nonlinear_arith);
    }/*-*/
    (wide as u64, (wide >> 64) as u64, carry_1 || carry_2)
}
//@ end

// m = (v * inv) mod B with inv * m0 == -1 (mod B) clears the low limb:  m0*m + v == 0 (mod B)
pub proof fn lemma_redc_factor(v1: int, inv: int, m0: int, m: int)
    requires m == (v1 * inv) % B, (inv * m0) % B == B - 1
    ensures (m0 * m + v1) % B == 0
{
    lemma_mul_mod_noop_right(m0, v1 * inv, B);
    assert(m0 * (v1 * inv) == v1 * (inv * m0)) by(nonlinear_arith);
    lemma_mul_mod_noop_right(v1, inv * m0, B);
    assert(v1 * (B - 1) + v1 == v1 * B) by(nonlinear_arith);
    lemma_mod_multiples_basic(v1, B);
    lemma_add_mod_noop(m0 * m, v1, B);
    lemma_add_mod_noop(v1 * (B - 1), v1, B);
}

// the part of a^2 contributed by rows 0..i of the squaring schedule: P*(2A - P) with P = lvi(a, i)
pub open spec fn sq_part(p: int, av: int) -> int { p * (2 * av - p) }

pub proof fn lemma_sq_part_step(p: int, t: int, av: int)
    ensures sq_part(p + t, av) == sq_part(p, av) + t * (t + 2 * (av - (p + t)))
{
    assert((p + t) * (2 * av - (p + t)) == p * (2 * av - p) + t * (t + 2 * (av - (p + t)))) by(nonlinear_arith);
}

// scaling the accumulator relation by one limb:  w1 = b*w,  b*accn = acco + row + m*mv,  w*acco = s0 + mv*mu,  w*row = r,  s1 = s0 + r
//   ==>  w1*accn = s1 + mv*(mu + m*w)      (distributivity only: deterministic, no nonlinear search)
pub proof fn lemma_scale_step(b: int, w: int, w1: int, accn: int, acco: int, row: int, m: int, mv: int, s0: int, s1: int, r: int, mu: int)
    requires w1 == b * w, b * accn == acco + row + m * mv, w * acco == s0 + mv * mu, w * row == r, s1 == s0 + r
    ensures w1 * accn == s1 + mv * (mu + m * w)
{
    // w1*accn == w*(b*accn)
    lemma_mul_is_commutative(b, w);
    lemma_mul_is_associative(w, b, accn);
    assert(w1 * accn == w * (b * accn));
    // w*(acco + row + m*mv) == w*acco + w*row + w*(m*mv)
    lemma_mul_is_distributive_add(w, acco + row, m * mv);
    lemma_mul_is_distributive_add(w, acco, row);
    // w*(m*mv) == mv*(m*w)
    lemma_mul_is_associative(w, m, mv);
    lemma_mul_is_commutative(w, m);
    lemma_mul_is_commutative(m * w, mv);
    assert(w * (m * mv) == mv * (m * w));
    // mv*mu + mv*(m*w) == mv*(mu + m*w)
    lemma_mul_is_distributive_add(mv, mu, m * w);
}

// one step of the doubled-product row:  R + cin*w = r + K + 2*ai*(A - P)  and  v + cout*B = 2*(ai*aj) + x + cin
//   ==>  (R + v*w) + (cout*B)*w = (r + x*w) + K + 2*ai*((A + aj*w) - P)        (distributivity only)
pub proof fn lemma_row_acc(w: int, rr: int, v: int, cin: int, cout: int, r: int, x: int, kk: int, ai: int, aj: int, aa: int, pp: int)
    requires rr + cin * w == r + kk + 2 * ai * (aa - pp), v + cout * B == 2 * (ai * aj) + x + cin
    ensures (rr + v * w) + (cout * B) * w == (r + x * w) + kk + 2 * ai * ((aa + aj * w) - pp)
{
    // (v + cout*B)*w == v*w + (cout*B)*w
    lemma_mul_is_distributive_add_other_way(w, v, cout * B);
    // (2*(ai*aj) + x + cin)*w == (2*(ai*aj))*w + x*w + cin*w
    lemma_mul_is_distributive_add_other_way(w, 2 * (ai * aj) + x, cin);
    lemma_mul_is_distributive_add_other_way(w, 2 * (ai * aj), x);
    // 2*ai*((aa - pp) + aj*w) == 2*ai*(aa - pp) + 2*ai*(aj*w)
    lemma_mul_is_distributive_add(2 * ai, aa - pp, aj * w);
    assert((aa + aj * w) - pp == (aa - pp) + aj * w);
    // 2*ai*(aj*w) == (2*(ai*aj))*w
    lemma_mul_is_associative(2 * ai, aj, w);
    lemma_mul_is_associative(2, ai, aj);
    assert((2 * ai) * aj == 2 * (ai * aj));
}

//@ extract src/algorithms/mul_redc.rs fn square_redc
/*+*/#[verifier::spinoff_prover]/*-*/
pub fn square_redc<const N: usize>(a: [u64; N], modulus: [u64; N], inv: u64) -> /*+*/(res:/*-*/ [u64; N]/*+*/)
    requires
        N >= 1,
        (inv as int * modulus@[0] as int) % B == B - 1,
        lvi(a@, N as int) < lvi(modulus@, N as int),
    ensures
        redc_post(res@, lvi(a@, N as int) * lvi(a@, N as int), lvi(modulus@, N as int), N as int)/*-*/
{
    /*+*/proof {
        lemma_lvi_is_lvr(a@, N as int); lemma_lvi_is_lvr(modulus@, N as int);
        assert(ord_of(lvr(a@, 0, N as int), lvr(modulus@, 0, N as int)) == Ordering::Less);
        assert(a@.len() == N && modulus@.len() == N);
    }/*-*/
    vassert ( (inv.wrapping_mul(modulus[0]) ) == ( u64::MAX ) );
    vassert ( (cmp(&a, &modulus) ) == ( Ordering::Less ) );
    /*+*/let ghost av = lvi(a@, N as int);
    let ghost mv = lvi(modulus@, N as int);
    let ghost n = N as int;/*-*/
    let mut result = [0; N];
    let mut carry_outer = 0;
    /*+*/let ghost mut mu: int = 0;     // bp(i) * Acc == sq_part(lvi(a, i), av) + mv * mu
    proof {
        lemma_lvi_zero(result@, n);
        lemma_lvi_bound(modulus@, n); lemma_lvi_bound(a@, n);
        assert(sq_part(0, av) + mv * 0 == 0) by(nonlinear_arith);
        assert(bp(0) * 0 == 0) by(nonlinear_arith);
        assert(0 * bp(n) == 0) by(nonlinear_arith);
    }/*-*/
    for i in 0..N
        /*+*/invariant
            n == N, N >= 1, av == lvi(a@, n), mv == lvi(modulus@, n), 0 <= av < mv, mv < bp(n),
            (inv as int * modulus@[0] as int) % B == B - 1,
            (modulus@[n - 1] as int) < 0x3fff_ffff_ffff_ffff ==> carry_outer == 0,
            carry_outer <= 2,
            0 <= mu < bp(i as int),
            bp(i as int) * (lvi(result@, n) + carry_outer as int * bp(n)) == sq_part(lvi(a@, i as int), av) + mv * mu,/*-*/
    {
        /*+*/let ghost r0 = result@;
        let ghost ii = i as int;
        let ghost ai = a@[ii] as int;
        let ghost co = carry_outer as int;
        let ghost acc_old = lvi(r0, n) + co * bp(n);/*-*/
        let (value, mut carry_lo) = carrying_mul_add(a[i], a[i], result[i], 0);
        let mut carry_hi = false;
        result[i] = value;
        /*+*/proof {
            lemma_lvi_ext(r0, result@, ii);
            assert(bp(ii + 1) == B * bp(ii));
            assert(lvi(result@, ii + 1) == lvi(result@, ii) + value as int * bp(ii));
            assert(lvi(r0, ii + 1) == lvi(r0, ii) + r0[ii] as int * bp(ii));
            assert(lvi(result@, ii + 1) + (carry_lo as int + 0) * (B * bp(ii)) == lvi(r0, ii + 1) + ai * (ai * bp(ii)) + 2 * ai * 0) by(nonlinear_arith)
                requires lvi(result@, ii + 1) == lvi(r0, ii) + value as int * bp(ii), lvi(r0, ii + 1) == lvi(r0, ii) + r0[ii] as int * bp(ii),
                         value as int + carry_lo as int * B == ai * ai + r0[ii] as int + 0;
        }/*-*/
        for j in (i + 1)..N
            /*+*/invariant
                n == N, N >= 1, ii == i, i < N, ai == a@[ii] as int, r0.len() == n,
                forall|l: int| j <= l < n ==> result@[l] == r0[l],
                lvi(result@, j as int) + (carry_lo as int + (if carry_hi { B } else { 0 })) * bp(j as int)
                    == lvi(r0, j as int) + ai * (ai * bp(ii)) + 2 * ai * (lvi(a@, j as int) - lvi(a@, ii + 1)),/*-*/
        {
            /*+*/let ghost jj = j as int;
            let ghost res_before = result@;
            let ghost c_in = carry_lo as int + (if carry_hi { B } else { 0 });/*-*/
            let (value, next_carry_lo, next_carry_hi) =
                carrying_double_mul_add(a[i], a[j], result[j], carry_lo, carry_hi);
            result[j] = value;
            carry_lo = next_carry_lo;
            carry_hi = next_carry_hi;
            /*+*/proof {
                let c_out = carry_lo as int + (if carry_hi { B } else { 0 });
                let aj = a@[jj] as int;
                lemma_lvi_ext(res_before, result@, jj);
                assert(bp(jj + 1) == B * bp(jj));
                assert(lvi(result@, jj + 1) == lvi(result@, jj) + value as int * bp(jj));
                assert(lvi(r0, jj + 1) == lvi(r0, jj) + r0[jj] as int * bp(jj));
                assert(lvi(a@, jj + 1) == lvi(a@, jj) + aj * bp(jj));
                assert(value as int + c_out * B == 2 * (ai * aj) + r0[jj] as int + c_in) by(nonlinear_arith)
                    requires value as int + carry_lo as int * B + (if carry_hi { B * B } else { 0 }) == 2 * (ai * aj) + r0[jj] as int + c_in,
                             c_out == carry_lo as int + (if carry_hi { B } else { 0 });
                lemma_row_acc(bp(jj), lvi(res_before, jj), value as int, c_in, c_out, lvi(r0, jj), r0[jj] as int, ai * (ai * bp(ii)), ai, aj, lvi(a@, jj), lvi(a@, ii + 1));
                lemma_mul_is_associative(c_out, B, bp(jj));
            }/*-*/
        }
        /*+*/let ghost r1 = result@;
        let ghost cc = carry_lo as int + (if carry_hi { B } else { 0 });
        // Y == lvi(r0, n) + row_i / B^i
        let ghost rowv = ai * (ai * bp(ii)) + 2 * ai * (av - lvi(a@, ii + 1));
        proof { assert(lvi(r1, n) + cc * bp(n) == lvi(r0, n) + rowv); }/*-*/
        let m = result[0].wrapping_mul(inv);
        let (value, mut carry) = carrying_mul_add(m, modulus[0], result[0], 0);
        /*+*/proof {
            let m0 = modulus@[0] as int; let v1 = r1[0] as int;
            assert(m as int == (v1 * inv as int) % B);
            lemma_redc_factor(v1, inv as int, m0, m as int);
            assert(m as int * m0 == m0 * m as int) by(nonlinear_arith);
            lemma_mod_multiples_vanish(carry as int, value as int, B);
            assert(B * carry as int == carry as int * B) by(nonlinear_arith);
            lemma_small_mod(value as nat, B as nat);
            assert(value == 0);
            assert(bp(1) == B) by { assert(bp(0) == 1); assert(B * 1 == B); }
            assert(lvi(r1, 1) == v1) by { assert(bp(0) == 1); assert(lvi(r1, 0) == 0); assert(v1 * 1 == v1) by(nonlinear_arith); }
            assert(lvi(modulus@, 1) == m0) by { assert(bp(0) == 1); assert(lvi(modulus@, 0) == 0); assert(m0 * 1 == m0) by(nonlinear_arith); }
            assert(lvi(result@, 0) == 0);
            assert(B * 0 + carry as int * B == v1 + m as int * m0) by(nonlinear_arith)
                requires 0 + carry as int * B == m as int * m0 + v1 + 0;
        }/*-*/
        vassert ( (value ) == ( 0 ) );
        for j in 1..N
            /*+*/invariant
                n == N, N >= 1, r1.len() == n,
                forall|l: int| j <= l < n ==> result@[l] == r1[l],
                B * lvi(result@, j as int - 1) + carry as int * bp(j as int) == lvi(r1, j as int) + m as int * lvi(modulus@, j as int),/*-*/
        {
            /*+*/let ghost jj = j as int;
            let ghost res_before = result@;
            let ghost c_in = carry as int;/*-*/
            let (value, next_carry) = carrying_mul_add(modulus[j], m, result[j], carry);
            result[j - 1] = value;
            carry = next_carry;
            /*+*/proof {
                let mj = modulus@[jj] as int;
                lemma_lvi_ext(res_before, result@, jj - 1);
                assert(bp(jj + 1) == B * bp(jj));
                assert(bp(jj) == B * bp(jj - 1));
                assert(lvi(result@, jj) == lvi(result@, jj - 1) + value as int * bp(jj - 1));
                assert(lvi(r1, jj + 1) == lvi(r1, jj) + r1[jj] as int * bp(jj));
                assert(lvi(modulus@, jj + 1) == lvi(modulus@, jj) + mj * bp(jj));
                assert(B * lvi(result@, jj) + carry as int * (B * bp(jj)) == lvi(r1, jj + 1) + m as int * lvi(modulus@, jj + 1)) by(nonlinear_arith)
                    requires B * lvi(res_before, jj - 1) + c_in * bp(jj) == lvi(r1, jj) + m as int * lvi(modulus@, jj),
                             lvi(result@, jj) == lvi(res_before, jj - 1) + value as int * bp(jj - 1),
                             bp(jj) == B * bp(jj - 1),
                             lvi(r1, jj + 1) == lvi(r1, jj) + r1[jj] as int * bp(jj),
                             lvi(modulus@, jj + 1) == lvi(modulus@, jj) + mj * bp(jj),
                             value as int + carry as int * B == mj * m as int + r1[jj] as int + c_in;
            }/*-*/
        }
        /*+*/let ghost r2 = result@;
        let ghost wt = co + cc + carry as int;      // the true top word
        let ghost acc_new = lvi(r2, n - 1) + wt * bp(n - 1);
        let ghost mu_new = mu + m as int * bp(ii);
        proof {
            // B * acc_new == acc_old + rowv + m * mv
            assert(bp(n) == B * bp(n - 1));
            lemma_bp_pos(n - 1); lemma_bp_pos(ii); lemma_bp_pos(n);
            assert(B * acc_new == acc_old + rowv + m as int * mv) by(nonlinear_arith)
                requires acc_new == lvi(r2, n - 1) + wt * bp(n - 1), wt == co + cc + carry as int, bp(n) == B * bp(n - 1),
                         B * lvi(r2, n - 1) + carry as int * bp(n) == lvi(r1, n) + m as int * mv,
                         lvi(r1, n) + cc * bp(n) == lvi(r0, n) + rowv, acc_old == lvi(r0, n) + co * bp(n);
            // relation at i+1
            let p = lvi(a@, ii); let t = ai * bp(ii);
            assert(lvi(a@, ii + 1) == p + t);
            lemma_sq_part_step(p, t, av);
            assert(bp(ii + 1) == B * bp(ii));
            assert(bp(ii) * rowv == t * (t + 2 * (av - (p + t)))) by(nonlinear_arith)
                requires rowv == ai * (ai * bp(ii)) + 2 * ai * (av - (p + t)), t == ai * bp(ii);
            lemma_scale_step(B, bp(ii), bp(ii + 1), acc_new, acc_old, rowv, m as int, mv, sq_part(p, av), sq_part(p + t, av), t * (t + 2 * (av - (p + t))), mu);
            // mu_new < bp(i+1)
            assert(0 <= mu_new < bp(ii + 1)) by(nonlinear_arith)
                requires mu_new == mu + m as int * bp(ii), 0 <= mu <= bp(ii) - 1, 0 <= m as int <= B - 1, bp(ii + 1) == B * bp(ii), bp(ii) >= 1;
            // bound: acc_new < 2*av + mv  (hence < 3*mv), from the relation
            let p1 = p + t;
            lemma_lvi_bound(a@, ii + 1);
            lemma_bp_pos(ii + 1);
            assert(sq_part(p1, av) <= bp(ii + 1) * (2 * av)) by(nonlinear_arith)
                requires sq_part(p1, av) == p1 * (2 * av - p1), 0 <= p1 < bp(ii + 1), av >= 0;
            assert(mv * mu_new <= (bp(ii + 1) - 1) * mv) by(nonlinear_arith) requires 0 <= mu_new <= bp(ii + 1) - 1, mv >= 0;
            assert(acc_new < 2 * av + mv) by(nonlinear_arith)
                requires bp(ii + 1) * acc_new == sq_part(p1, av) + mv * mu_new, sq_part(p1, av) <= bp(ii + 1) * (2 * av),
                         mv * mu_new <= (bp(ii + 1) - 1) * mv, bp(ii + 1) >= 1, mv >= 1;
            assert(acc_new < 3 * mv);
            // the true top word is small: wt * bp(n-1) <= acc_new < 3 * bp(n)
            lemma_lvi_bound(r2, n - 1);
            assert(wt < 3 * B) by(nonlinear_arith)
                requires acc_new == lvi(r2, n - 1) + wt * bp(n - 1), lvi(r2, n - 1) >= 0, acc_new < 3 * mv, mv < bp(n), bp(n) == B * bp(n - 1), bp(n - 1) >= 1;
            assert(wt >= 0);
        }/*-*/
        if modulus[N - 1] >= 0x3fff_ffff_ffff_ffff {
            /*+*/let ghost ch: u128 = carry_hi as u128;
            proof {
                assert(ch == (if carry_hi { 1u128 } else { 0u128 }));
                assert(ch << 64 == (if carry_hi { 0x1_0000_0000_0000_0000u128 } else { 0u128 })) by(bit_vector)
                    requires ch == (if carry_hi { 1u128 } else { 0u128 });
                let bb: int = B * B; assert(u128::MAX as int == B * B - 1) by(compute_only);
                lemma_small_mod((co + carry_lo as int) as nat, bb as nat);
                lemma_small_mod((co + cc) as nat, bb as nat);
                lemma_small_mod((co + cc + carry as int) as nat, bb as nat);
            }/*-*/
            let wide = (carry_outer as u128)
                .wrapping_add(carry_lo as u128)
                .wrapping_add((carry_hi as u128) << 64)
                .wrapping_add(carry as u128);
            result[N - 1] = wide as u64;
            carry_outer = (wide >> 64) as u64;
            /*+*/proof {
                assert(wide as int == wt);
                lemma_u128_shr_is_div(wide, 64); lemma2_to64();
                assert(wide as u64 == (wide % 0x1_0000_0000_0000_0000u128) as u64) by(bit_vector);
                lemma_fundamental_div_mod(wide as int, B);
                let lo = (wide as int) % B; let hi = (wide as int) / B;
                assert(hi <= 2) by(nonlinear_arith) requires wt == B * hi + lo, lo >= 0, wt < 3 * B, B > 0;
                assert(carry_outer as int == hi);
                lemma_lvi_ext(r2, result@, n - 1);
                assert(lvi(result@, n) == lvi(result@, n - 1) + lo * bp(n - 1));
                assert(lvi(result@, n) + carry_outer as int * bp(n) == acc_new) by(nonlinear_arith)
                    requires lvi(result@, n) == lvi(r2, n - 1) + lo * bp(n - 1), acc_new == lvi(r2, n - 1) + wt * bp(n - 1),
                             wt == B * hi + lo, bp(n) == B * bp(n - 1), carry_outer as int == hi;
            }/*-*/
            vassert (carry_outer <= 2 );
        } else {
            /*+*/proof {
                // 4*mv < bp(n), so acc_new < 3*mv < bp(n)*3/4 and the top word fits one limb
                lemma_lvi_bound(modulus@, n - 1);
                assert(mv == lvi(modulus@, n - 1) + modulus@[n - 1] as int * bp(n - 1));
                assert(4 * mv < bp(n)) by(nonlinear_arith)
                    requires mv == lvi(modulus@, n - 1) + modulus@[n - 1] as int * bp(n - 1), lvi(modulus@, n - 1) < bp(n - 1),
                             modulus@[n - 1] as int <= 0x3fff_ffff_ffff_fffe, bp(n) == B * bp(n - 1), bp(n - 1) >= 1, B == 0x1_0000_0000_0000_0000;
                assert(wt < B) by(nonlinear_arith)
                    requires acc_new == lvi(r2, n - 1) + wt * bp(n - 1), lvi(r2, n - 1) >= 0, acc_new < 3 * mv, 4 * mv < bp(n), bp(n) == B * bp(n - 1), bp(n - 1) >= 1;
                assert(co == 0);
                assert(!carry_hi);
                lemma_small_mod((carry_lo as int + carry as int) as nat, B as nat);
            }/*-*/
            vassert (!carry_hi );
            vassert ( (carry_outer ) == ( 0 ) );
            let (value, carry) = carry_lo.overflowing_add(carry);
            vassert (!carry );
            result[N - 1] = value;
            /*+*/proof {
                lemma_lvi_ext(r2, result@, n - 1);
                assert(lvi(result@, n) == lvi(result@, n - 1) + value as int * bp(n - 1));
                assert(value as int == wt);
                assert(0 * bp(n) == 0) by(nonlinear_arith);
                assert(lvi(result@, n) + carry_outer as int * bp(n) == acc_new);
            }/*-*/
        }
        /*+*/proof { mu = mu_new; }/*-*/
    }
    /*+*/proof {
        // final bound: bp(n)*Acc == av*av + mv*mu with mu < bp(n), av < mv < bp(n)  ==>  Acc < 2*mv
        let acc = lvi(result@, n) + carry_outer as int * bp(n);
        assert(sq_part(av, av) == av * av) by(nonlinear_arith) requires sq_part(av, av) == av * (2 * av - av);
        lemma_bp_pos(n);
        assert(av * av <= (mv - 1) * (mv - 1)) by(nonlinear_arith) requires 0 <= av <= mv - 1;
        assert(mv * mu <= mv * (bp(n) - 1)) by(nonlinear_arith) requires 0 <= mu <= bp(n) - 1, mv >= 0;
        assert(acc < 2 * mv) by(nonlinear_arith)
            requires bp(n) * acc == av * av + mv * mu, av * av <= (mv - 1) * (mv - 1), mv * mu <= mv * (bp(n) - 1), 1 <= mv <= bp(n) - 1;
        lemma_lvi_bound(result@, n);
        assert(carry_outer <= 1) by(nonlinear_arith)
            requires acc == lvi(result@, n) + carry_outer as int * bp(n), lvi(result@, n) >= 0, acc < 2 * mv, mv < bp(n), bp(n) >= 1;
        let cb = carry_outer > 0;
        assert(lvi(result@, n) + (if cb { bp(n) } else { 0 }) == acc) by(nonlinear_arith)
            requires acc == lvi(result@, n) + carry_outer as int * bp(n), carry_outer <= 1, cb == (carry_outer > 0);
        assert forall|r: Seq<u64>| #[trigger] reduce_post(r, result@, modulus@, cb, n) implies redc_post(r, av * av, mv, n) by {
            if lvi(r, n) == acc {
                assert(redc_rel(bp(n) * lvi(r, n), av * av, mv, mu));
            } else {
                assert(bp(n) * (acc - mv) == av * av + mv * (mu - bp(n))) by(nonlinear_arith)
                    requires bp(n) * acc == av * av + mv * mu;
                assert(redc_rel(bp(n) * lvi(r, n), av * av, mv, mu - bp(n)));
            }
        }
    }/*-*/
    vassert (carry_outer <= 1 );
    reduce1_carry(result, modulus, carry_outer > 0)
}
//@ end

} // verus!
fn main() {}

// unit kernels: limb-slice add/sub/mul-by-word/shift/compare kernels (C15; callees of C02, C14)
#![allow(non_snake_case)]
use vstd::prelude::*;
use vstd::arithmetic::power2::*;
use vstd::arithmetic::mul::*;
use vstd::arithmetic::div_mod::*;
use vstd::bits::*;
use core::cmp::Ordering;
use vstd::std_specs::cmp::*;
verus! {
//@ include lib/base.rs
//@ include lib/lvr.rs

//@ extract src/algorithms/mod.rs trait DoubleWord
pub trait DoubleWord<T>: Sized + Copy {
    fn join(high: T, low: T) -> Self;
    fn add(a: T, b: T) -> Self;
    fn mul(a: T, b: T) -> Self;
    fn muladd(a: T, b: T, c: T) -> Self;
    fn muladd2(a: T, b: T, c: T, d: T) -> Self;
    fn high(self) -> T;
    fn low(self) -> T;
    fn split(self) -> (T, T);
}
//@ end

pub proof fn lemma_mul_u64_bound(a: u64, b: u64)
    ensures (a as int) * (b as int) <= (B - 1) * (B - 1), (a as int) * (b as int) >= 0,
        (a as int) * (b as int) + 2 * (B - 1) <= u128::MAX
{
    assert((a as int) * (b as int) <= (B - 1) * (B - 1)) by(nonlinear_arith)
        requires 0 <= a as int <= B - 1, 0 <= b as int <= B - 1;
    assert((a as int) * (b as int) >= 0) by(nonlinear_arith) requires 0 <= a as int, 0 <= b as int;
    assert((B - 1) * (B - 1) + 2 * (B - 1) == 0xffff_ffff_ffff_ffff_ffff_ffff_ffff_ffff) by(nonlinear_arith)
        requires B == 0x1_0000_0000_0000_0000;
}

impl DoubleWord<u64> for u128 {
//@ extract src/algorithms/mod.rs fn join ctx="impl DoubleWord<u64> for u128" vis=none
    fn join(high: u64, low: u64) -> /*+*/(r:/*-*/ Self/*+*/)
        ensures r as int == high as int * B + low as int/*-*/
    {
        /*+*/proof {
            let h = high as u128; let l = low as u128;
            assert(((h << 64) | l) == h * 0x1_0000_0000_0000_0000u128 + l) by(bit_vector)
                requires h <= 0xffff_ffff_ffff_ffffu128, l <= 0xffff_ffff_ffff_ffffu128;
        }/*-*/
        (Self::from(high) << 64) | Self::from(low)
    }
//@ end

//@ extract src/algorithms/mod.rs fn add ctx="impl DoubleWord<u64> for u128" vis=none
    fn add(a: u64, b: u64) -> /*+*/(r:/*-*/ Self/*+*/)
        ensures r as int == a as int + b as int/*-*/
    {
        Self::from(a) + Self::from(b)
    }
//@ end

//@ extract src/algorithms/mod.rs fn mul ctx="impl DoubleWord<u64> for u128" vis=none
    fn mul(a: u64, b: u64) -> /*+*/(r:/*-*/ Self/*+*/)
        ensures r as int == a as int * b as int/*-*/
    {
        /*+*/proof { lemma_mul_u64_bound(a, b); }/*-*/
        Self::from(a) * Self::from(b)
    }
//@ end

//@ extract src/algorithms/mod.rs fn muladd ctx="impl DoubleWord<u64> for u128" vis=none
    fn muladd(a: u64, b: u64, c: u64) -> /*+*/(r:/*-*/ Self/*+*/)
        ensures r as int == a as int * b as int + c as int/*-*/
    {
        /*+*/proof { lemma_mul_u64_bound(a, b); }/*-*/
        Self::from(a) * Self::from(b) + Self::from(c)
    }
//@ end

//@ extract src/algorithms/mod.rs fn muladd2 ctx="impl DoubleWord<u64> for u128" vis=none
    fn muladd2(a: u64, b: u64, c: u64, d: u64) -> /*+*/(r:/*-*/ Self/*+*/)
        ensures r as int == a as int * b as int + c as int + d as int/*-*/
    {
        /*+*/proof { lemma_mul_u64_bound(a, b); }/*-*/
        Self::from(a) * Self::from(b) + Self::from(c) + Self::from(d)
    }
//@ end

//@ extract src/algorithms/mod.rs fn high ctx="impl DoubleWord<u64> for u128" vis=none
    fn high(self) -> /*+*/(r:/*-*/ u64/*+*/)
        ensures r as int == (self as int) / B/*-*/
    {
        /*+*/proof { lemma_u128_shr_is_div(self, 64); lemma_pow2_64(); }/*-*/
        (self >> 64) as u64
    }
//@ end

//@ extract src/algorithms/mod.rs fn low ctx="impl DoubleWord<u64> for u128" vis=none
    fn low(self) -> /*+*/(r:/*-*/ u64/*+*/)
        ensures r as int == (self as int) % B/*-*/
    {
        /*+*/assert(self as u64 == (self % 0x1_0000_0000_0000_0000u128) as u64) by(bit_vector);/*-*/
        self as u64
    }
//@ end

//@ extract src/algorithms/mod.rs fn split ctx="impl DoubleWord<u64> for u128" vis=none
    fn split(self) -> /*+*/(r:/*-*/ (u64, u64)/*+*/)
        ensures r.0 as int + (r.1 as int) * B == self as int,
            r.0 as int == (self as int) % B, r.1 as int == (self as int) / B/*-*/
    {
        /*+*/proof { lemma_fundamental_div_mod(self as int, B as int); }/*-*/
        (self.low(), self.high())
    }
//@ end
}

//@ extract src/algorithms/ops.rs fn adc
pub fn adc(lhs: u64, rhs: u64, carry: u64) -> /*+*/(r:/*-*/ (u64, u64)/*+*/)
    ensures r.0 as int + (r.1 as int) * B == lhs as int + rhs as int + carry as int,
        r.1 <= 2, carry <= 1 ==> r.1 <= 1/*-*/
{
    let result = u128::from(lhs) + u128::from(rhs) + u128::from(carry);
    result.split()
}
//@ end

//@ extract src/algorithms/ops.rs fn sbb
pub fn sbb(lhs: u64, rhs: u64, borrow: u64) -> /*+*/(r:/*-*/ (u64, u64)/*+*/)
    ensures r.0 as int - (r.1 as int) * B == lhs as int - rhs as int - borrow as int,
        r.1 <= 2, borrow <= 1 ==> r.1 <= 1/*-*/
{
    let result = u128::from(lhs)
        .wrapping_sub(u128::from(rhs))
        .wrapping_sub(u128::from(borrow));
    /*+*/proof {
        let d = lhs as int - rhs as int - borrow as int;
        let m = B * B;
        assert(m == 0x1_0000_0000_0000_0000_0000_0000_0000_0000);
        assert(result as int == if d >= 0 { d } else { d + m });
        if d >= 0 {
            lemma_fundamental_div_mod_converse(result as int, B, 0, d);
        } else {
            // d in [-2B, -1] ; result = m + d = (B - k) * B + low
            let k: int = if d >= -B { 1 } else { 2 };
            assert(result as int == (B - k) * B + (d + k * B)) by(nonlinear_arith) requires result as int == d + B * B;
            lemma_fundamental_div_mod_converse(result as int, B, B - k, d + k * B);
        }
    }/*-*/
    (result.low(), result.high().wrapping_neg())
}
//@ end

//@ extract src/algorithms/add.rs fn adc_n
pub fn adc_n(lhs: &mut [u64], rhs: &[u64], carry: u64) -> /*+*/(r:/*-*/ u64/*+*/)
    requires old(lhs).len() <= rhs.len(), carry <= 1
    ensures final(lhs).len() == old(lhs).len(), r <= 1,
        lvr(final(lhs)@, 0, old(lhs).len() as int) + r as int * bp(old(lhs).len() as int)
            == lvr(old(lhs)@, 0, old(lhs).len() as int) + lvr(rhs@, 0, old(lhs).len() as int) + carry as int/*-*/
{ let mut carry = carry ;
    /*+*/let ghost c_in = carry;
    let ghost n = lhs.len() as int;
    proof { assert(bp(0) == 1); }/*-*/
    for i in /*+*/iter:/*-*/ 0..lhs.len()
        /*+*/invariant
            iter.seq().len() == n,
            lhs.len() == n, n <= rhs.len(), carry <= 1,
            lvr(lhs@, 0, i as int) + carry as int * bp(i as int) == lvr(old(lhs)@, 0, i as int) + lvr(rhs@, 0, i as int) + c_in as int,
            forall|j: int| i <= j < n ==> lhs@[j] == old(lhs)@[j],/*-*/
    {
        /*+*/let ghost prev = lhs@;
        let ghost c0 = carry;/*-*/
        let ( t0_0 , t0_1 ) = adc(lhs[i], rhs[i], carry);lhs[i] = t0_0 ; carry = t0_1 ;
        /*+*/proof {
            let w = bp(i as int);
            lemma_lvr_ext(prev, lhs@, 0, i as int);
            lemma_lvr_push(lhs@, 0, i as int);
            lemma_lvr_push(old(lhs)@, 0, i as int);
            lemma_lvr_push(rhs@, 0, i as int);
            assert(bp(i as int + 1) == B * w);
            let a = old(lhs)@[i as int] as int; let b = rhs@[i as int] as int;
            assert(w * lhs@[i as int] as int + carry as int * (B * w) == w * a + w * b + c0 as int * w) by(nonlinear_arith)
                requires lhs@[i as int] as int + carry as int * B == a + b + c0 as int;
        }/*-*/
    }
    carry
}
//@ end

//@ extract src/algorithms/add.rs fn sbb_n
pub fn sbb_n(lhs: &mut [u64], rhs: &[u64], borrow: u64) -> /*+*/(r:/*-*/ u64/*+*/)
    requires old(lhs).len() <= rhs.len(), borrow <= 1
    ensures final(lhs).len() == old(lhs).len(), r <= 1,
        lvr(final(lhs)@, 0, old(lhs).len() as int) - r as int * bp(old(lhs).len() as int)
            == lvr(old(lhs)@, 0, old(lhs).len() as int) - lvr(rhs@, 0, old(lhs).len() as int) - borrow as int/*-*/
{ let mut borrow = borrow ;
    /*+*/let ghost c_in = borrow;
    let ghost n = lhs.len() as int;
    proof { assert(bp(0) == 1); }/*-*/
    for i in /*+*/iter:/*-*/ 0..lhs.len()
        /*+*/invariant
            iter.seq().len() == n,
            lhs.len() == n, n <= rhs.len(), borrow <= 1,
            lvr(lhs@, 0, i as int) - borrow as int * bp(i as int) == lvr(old(lhs)@, 0, i as int) - lvr(rhs@, 0, i as int) - c_in as int,
            forall|j: int| i <= j < n ==> lhs@[j] == old(lhs)@[j],/*-*/
    {
        /*+*/let ghost prev = lhs@;
        let ghost c0 = borrow;/*-*/
        let ( t0_0 , t0_1 ) = sbb(lhs[i], rhs[i], borrow);lhs[i] = t0_0 ; borrow = t0_1 ;
        /*+*/proof {
            let w = bp(i as int);
            lemma_lvr_ext(prev, lhs@, 0, i as int);
            lemma_lvr_push(lhs@, 0, i as int);
            lemma_lvr_push(old(lhs)@, 0, i as int);
            lemma_lvr_push(rhs@, 0, i as int);
            assert(bp(i as int + 1) == B * w);
            let a = old(lhs)@[i as int] as int; let b = rhs@[i as int] as int;
            assert(w * lhs@[i as int] as int - borrow as int * (B * w) == w * a - w * b - c0 as int * w) by(nonlinear_arith)
                requires lhs@[i as int] as int - borrow as int * B == a - b - c0 as int;
        }/*-*/
    }
    borrow
}
//@ end

//@ extract src/algorithms/mul.rs fn mac
pub fn mac(lhs: &mut u64, a: u64, b: u64, c: u64) -> /*+*/(r:/*-*/ u64/*+*/)
    ensures *final(lhs) as int + (r as int) * B == a as int * b as int + c as int + *old(lhs) as int,
        *final(lhs) as int == (a as int * b as int + c as int + *old(lhs) as int) % B,
        r as int == (a as int * b as int + c as int + *old(lhs) as int) / B,/*-*/
{
    let prod = u128::muladd2(a, b, c, *lhs);
    *lhs = prod.low();
    /*+*/proof { lemma_fundamental_div_mod(prod as int, B); }/*-*/
    prod.high()
}
//@ end

// one more limb of a schoolbook row: (done ++ [t]) with carry c1 continues the invariant
pub proof fn lemma_row_step(done: Seq<u64>, src: Seq<u64>, i: int, t: u64, c0: int, c1: int, m: int, extra: int)
    requires 0 <= i < src.len(), done.len() == i,
        lvr(done, 0, i) + c0 * bp(i) == lvr(src, 0, i) * m + extra,
        t as int + c1 * B == (src[i] as int) * m + c0,
    ensures lvr(done.push(t), 0, i + 1) + c1 * bp(i + 1) == lvr(src, 0, i + 1) * m + extra
{
    let d2 = done.push(t);
    lemma_lvr_ext(done, d2, 0, i);
    lemma_lvr_push(d2, 0, i);
    lemma_lvr_push(src, 0, i);
    let w = bp(i);
    assert(bp(i + 1) == B * w);
    let si = src[i] as int;
    assert(w * (t as int) + c1 * (B * w) == (w * si) * m + c0 * w) by(nonlinear_arith)
        requires t as int + c1 * B == si * m + c0;
    assert((lvr(src, 0, i) + w * si) * m == lvr(src, 0, i) * m + (w * si) * m) by(nonlinear_arith);
}

//@ extract src/algorithms/mul.rs fn mul_nx1 rewrite="for lhs in lhs {" => "for lhs in lhs.iter_mut() {" #1
pub fn mul_nx1(lhs: &mut [u64], a: u64) -> /*+*/(r:/*-*/ u64/*+*/)
    ensures final(lhs).len() == old(lhs).len(),
        lvr(final(lhs)@, 0, old(lhs).len() as int) + r as int * bp(old(lhs).len() as int)
            == lvr(old(lhs)@, 0, old(lhs).len() as int) * a as int/*-*/
{
    let mut carry = 0;
    /*+*/let ghost n = lhs.len() as int;
    let ghost mut done: Seq<u64> = Seq::empty();
    let ghost src = lhs@;
    proof {
        assert(bp(0) == 1);
        assert(carry as int * bp(0) == 0) by(nonlinear_arith) requires carry == 0;
        assert(lvr(src, 0, 0) * a as int == 0) by(nonlinear_arith) requires lvr(src, 0, 0) == 0;
    }/*-*/
    for lhs in /*+*/it:/*-*/ lhs.iter_mut()
        /*+*/invariant
            it.seq().len() == n, n == src.len(), done.len() == it.index@,
            forall|j: int| 0 <= j < n ==> *(#[trigger] it.seq()[j]) == src[j],
            forall|j: int| 0 <= j < it.index@ ==> *final(#[trigger] it.seq()[j]) == done[j],
            lvr(done, 0, it.index@ as int) + carry as int * bp(it.index@ as int) == lvr(src, 0, it.index@ as int) * a as int,/*-*/
    {
        /*+*/let ghost c0 = carry;/*-*/
        let ( t0_0 , t0_1 ) = u128::muladd(*lhs, a, carry).split();*lhs = t0_0 ; carry = t0_1 ;
        /*+*/proof {
            lemma_row_step(done, src, it.index@ as int, t0_0, c0 as int, t0_1 as int, a as int, 0);
            done = done.push(t0_0);
        }/*-*/
    }
    /*+*/proof { assert(final(lhs)@ =~= done); }/*-*/
    carry
}
//@ end

//@ extract src/algorithms/mul.rs fn addmul_nx1
pub fn addmul_nx1(lhs: &mut [u64], a: &[u64], b: u64) -> /*+*/(r:/*-*/ u64/*+*/)
    requires old(lhs).len() == a.len()
    ensures final(lhs).len() == old(lhs).len(),
        lvr(final(lhs)@, 0, a.len() as int) + r as int * bp(a.len() as int)
            == lvr(old(lhs)@, 0, a.len() as int) + lvr(a@, 0, a.len() as int) * b as int/*-*/
{
    vassert (lhs.len() == a.len() );
    let mut carry = 0;
    /*+*/proof {
        assert(bp(0) == 1);
        assert(carry as int * bp(0) == 0) by(nonlinear_arith) requires carry == 0;
        assert(lvr(a@, 0, 0) * b as int == 0) by(nonlinear_arith) requires lvr(a@, 0, 0) == 0;
    }/*-*/
    for i in 0..a.len()
        /*+*/invariant
            lhs.len() == a.len(), old(lhs).len() == a.len(),
            lvr(lhs@, 0, i as int) + carry as int * bp(i as int) == lvr(old(lhs)@, 0, i as int) + lvr(a@, 0, i as int) * b as int,
            forall|j: int| i <= j < a.len() ==> lhs@[j] == old(lhs)@[j],/*-*/
    {
        /*+*/let ghost prev = lhs@;
        let ghost c0 = carry;/*-*/
        let ( t0_0 , t0_1 ) = u128::muladd2(a[i], b, carry, lhs[i]).split();lhs[i] = t0_0 ; carry = t0_1 ;
        /*+*/proof {
            let w = bp(i as int);
            lemma_lvr_ext(prev, lhs@, 0, i as int);
            lemma_lvr_push(lhs@, 0, i as int);
            lemma_lvr_push(old(lhs)@, 0, i as int);
            lemma_lvr_push(a@, 0, i as int);
            assert(bp(i as int + 1) == B * w);
            let ai = a@[i as int] as int; let li = old(lhs)@[i as int] as int;
            assert(w * lhs@[i as int] as int + carry as int * (B * w) == (w * ai) * b as int + c0 as int * w + w * li) by(nonlinear_arith)
                requires lhs@[i as int] as int + carry as int * B == ai * b as int + c0 as int + li;
            assert((lvr(a@, 0, i as int) + w * ai) * b as int == lvr(a@, 0, i as int) * b as int + (w * ai) * b as int) by(nonlinear_arith);
        }/*-*/
    }
    carry
}
//@ end

//@ extract src/algorithms/mul.rs fn submul_nx1
pub fn submul_nx1(lhs: &mut [u64], a: &[u64], b: u64) -> /*+*/(r:/*-*/ u64/*+*/)
    requires old(lhs).len() == a.len()
    ensures final(lhs).len() == old(lhs).len(),
        lvr(final(lhs)@, 0, a.len() as int) - r as int * bp(a.len() as int)
            == lvr(old(lhs)@, 0, a.len() as int) - lvr(a@, 0, a.len() as int) * b as int/*-*/
{
    vassert (lhs.len() == a.len() );
    let mut carry = 0;
    let mut borrow = 0;
    /*+*/proof {
        assert(bp(0) == 1);
        assert((borrow as int + carry as int) * bp(0) == 0) by(nonlinear_arith) requires carry == 0, borrow == 0;
        assert(lvr(a@, 0, 0) * b as int == 0) by(nonlinear_arith) requires lvr(a@, 0, 0) == 0;
    }/*-*/
    for i in 0..a.len()
        /*+*/invariant
            lhs.len() == a.len(), old(lhs).len() == a.len(), borrow <= 1,
            carry as int <= B - 2,
            lvr(lhs@, 0, i as int) - (borrow as int + carry as int) * bp(i as int) == lvr(old(lhs)@, 0, i as int) - lvr(a@, 0, i as int) * b as int,
            forall|j: int| i <= j < a.len() ==> lhs@[j] == old(lhs)@[j],/*-*/
    {
        /*+*/let ghost prev = lhs@;
        let ghost c0 = carry;
        let ghost b0 = borrow;/*-*/
        let limb;
        let ( t0_0 , t0_1 ) = u128::muladd(a[i], b, carry).split();limb = t0_0 ; carry = t0_1 ;
        let ( t1_0 , t1_1 ) = sbb(lhs[i], limb, borrow);lhs[i] = t1_0 ; borrow = t1_1 ;
        /*+*/proof {
            let w = bp(i as int);
            lemma_lvr_ext(prev, lhs@, 0, i as int);
            lemma_lvr_push(lhs@, 0, i as int);
            lemma_lvr_push(old(lhs)@, 0, i as int);
            lemma_lvr_push(a@, 0, i as int);
            assert(bp(i as int + 1) == B * w);
            let ai = a@[i as int] as int; let li = old(lhs)@[i as int] as int;
            // carry' = floor((ai*b + c0)/B) <= B-2
            lemma_mul_u64_bound(a@[i as int], b);
            assert(carry as int <= B - 2) by(nonlinear_arith)
                requires limb as int + carry as int * B == ai * b as int + c0 as int, ai * b as int <= (B - 1) * (B - 1), 0 <= c0 as int <= B - 2, limb as int >= 0;
            assert(w * lhs@[i as int] as int - (borrow as int + carry as int) * (B * w) == w * li - (w * ai) * b as int - (b0 as int + c0 as int) * w) by(nonlinear_arith)
                requires limb as int + carry as int * B == ai * b as int + c0 as int,
                    lhs@[i as int] as int - borrow as int * B == li - limb as int - b0 as int;
            assert((lvr(a@, 0, i as int) + w * ai) * b as int == lvr(a@, 0, i as int) * b as int + (w * ai) * b as int) by(nonlinear_arith);
        }/*-*/
    }
    borrow + carry
}
//@ end

// add_nx1 is proved in unit addnx1 (index-loop form of its early-exit loop).


pub assume_specification<T: Ord> [core::cmp::min::<T>] (a: T, b: T) -> (r: T)
    ensures <T as OrdSpec>::obeys_cmp_spec() ==> r == (if OrdSpec::cmp_spec(&a, &b) == Ordering::Greater { b } else { a });

pub assume_specification [<i8 as core::convert::From<bool>>::from] (b: bool) -> (r: i8)
    ensures r == (if b { 1i8 } else { 0i8 });

pub open spec fn ord_of(a: int, b: int) -> Ordering {
    if a < b { Ordering::Less } else if a == b { Ordering::Equal } else { Ordering::Greater }
}

// the most significant differing limb decides
pub proof fn lemma_cmp_high(s: Seq<u64>, t: Seq<u64>, i: int, n: int)
    requires 0 <= i < n, n <= s.len(), n <= t.len(), forall|j: int| i < j < n ==> s[j] == t[j], s[i] != t[i]
    ensures (s[i] < t[i]) ==> lvr(s, 0, n) < lvr(t, 0, n), (s[i] > t[i]) ==> lvr(s, 0, n) > lvr(t, 0, n)
{
    lemma_lvr_split(s, 0, i, n); lemma_lvr_split(t, 0, i, n);
    lemma_lvr_split(s, i, i + 1, n); lemma_lvr_split(t, i, i + 1, n);
    lemma_lvr_ext(s, t, i + 1, n);
    lemma_lvr_bound(s, 0, i); lemma_lvr_bound(t, 0, i);
    lemma_lvr_bound(s, i + 1, n);
    assert(lvr(s, i, i + 1) == s[i] as int) by { assert(lvr(s, i + 1, i + 1) == 0); assert(B * 0 == 0); }
    assert(lvr(t, i, i + 1) == t[i] as int) by { assert(lvr(t, i + 1, i + 1) == 0); assert(B * 0 == 0); }
    assert(bp(1) == B) by { assert(bp(0) == 1); }
    let w = bp(i); let h = lvr(s, i + 1, n);
    lemma_bp_pos(i);
    let a = lvr(s, 0, i); let b = lvr(t, 0, i);
    let x = s[i] as int; let y = t[i] as int;
    assert(x < y ==> a + w * (x + B * h) < b + w * (y + B * h)) by(nonlinear_arith)
        requires 0 <= a < w, 0 <= b < w, w >= 1;
    assert(x > y ==> a + w * (x + B * h) > b + w * (y + B * h)) by(nonlinear_arith)
        requires 0 <= a < w, 0 <= b < w, w >= 1;
}

//@ extract src/algorithms/mod.rs fn cmp
pub fn cmp(left: &[u64], right: &[u64]) -> /*+*/(r:/*-*/ Ordering/*+*/)
    ensures left.len() == right.len() ==> r == ord_of(lvr(left@, 0, left.len() as int), lvr(right@, 0, left.len() as int))/*-*/
{
    let l = core::cmp::min(left.len(), right.len());
    let lhs = &left[..l];
    let rhs = &right[..l];
    for i in /*+*/iter:/*-*/ (0..l).rev()
        /*+*/invariant
            l <= left.len(), l <= right.len(), lhs@ == left@.subrange(0, l as int), rhs@ == right@.subrange(0, l as int),
            iter.seq().len() == l, left.len() == right.len() ==> l == left.len(),
            forall|j: int| l - iter.index@ <= j < l ==> left@[j] == right@[j],/*-*/
    {
        /*+*/proof { assert(i == l - 1 - iter.index@); assert(left.len() == right.len() ==> l == left.len()); assert(lhs@[i as int] == left@[i as int]); assert(rhs@[i as int] == right@[i as int]); if left@[i as int] != right@[i as int] { lemma_cmp_high(left@, right@, i as int, l as int); } }/*-*/
        match i8::from(lhs[i] > rhs[i]) - i8::from(lhs[i] < rhs[i]) {
            -1 => return Ordering::Less,
            0 => {}
            1 => return Ordering::Greater,
            _ => vpanic ( ),
        }
    }
    /*+*/proof { if left.len() == right.len() { lemma_lvr_ext(left@, right@, 0, l as int); } }/*-*/
    left.len().cmp(&right.len())
}
//@ end

} // verus!
fn main() {}

// unit div_small: src/algorithms/div/small.rs + reciprocal.rs — 2-by-1 / 3-by-2 division with reciprocals, n-by-1, n-by-2  (C14, C03)
#![allow(non_snake_case)]
use vstd::prelude::*;
use vstd::arithmetic::power2::*;
use vstd::arithmetic::mul::*;
use vstd::arithmetic::div_mod::*;
use vstd::bits::*;
use vstd::std_specs::bits::*;
verus! {
//@ include lib/base.rs
//@ include lib/lvr.rs
//@ include lib/divspec.rs
//@ include lib/shift.rs

// ASSUMED (label A): reciprocal = reciprocal_mg10 (table-seeded Newton iteration over Wrapping<u64>, MG10 Alg. 3);
// its contract is exactly "equals reciprocal_ref"; the lookup table is pinned by unit recip_table.
#[verifier::external_body]
pub fn reciprocal(d: u64) -> (v: u64)
    requires d as int >= B / 2
    ensures is_reciprocal(d, v)
{ unimplemented!() }

//@ extract src/algorithms/div/reciprocal.rs fn reciprocal_ref
pub fn reciprocal_ref(d: u64) -> /*+*/(v:/*-*/ u64/*+*/)
    requires d as int >= B / 2
    ensures is_reciprocal(d, v)/*-*/
{
    /*+*/proof { assert((1u64 << 63) == 0x8000_0000_0000_0000u64) by(bit_vector); assert(B / 2 == 0x8000_0000_0000_0000);
            assert((1u128 << 64) == 0x1_0000_0000_0000_0000u128) by(bit_vector); assert((1u128 << 65) == 0x2_0000_0000_0000_0000u128) by(bit_vector); }/*-*/
    vassert (d >= (1 << 63) );
    let r = u128::MAX / u128::from(d);
    /*+*/proof {
        assert(u128::MAX as int == B * B - 1) by(nonlinear_arith) requires B == 0x1_0000_0000_0000_0000, u128::MAX as int == 0xffff_ffff_ffff_ffff_ffff_ffff_ffff_ffff;
        lemma_recip_range(d as int);
    }/*-*/
    vassert (r >= (1 << 64) );
    vassert (r < (1 << 65) );
    /*+*/proof { assert(r as u64 == (r - 0x1_0000_0000_0000_0000u128) as u64) by(bit_vector) requires r >= 0x1_0000_0000_0000_0000u128, r < 0x2_0000_0000_0000_0000u128; }/*-*/
    r as u64
}
//@ end


// ---------- pure math ----------

// k = B^2 - vv*d is in [1, d]
pub proof fn lemma_k(d: int, vv: int)
    requires B / 2 <= d < B, vv == (B * B - 1) / d
    ensures 1 <= B * B - vv * d <= d
{
    let n = B * B - 1;
    lemma_fundamental_div_mod(n, d);
    lemma_mod_bound(n, d);
    // n == d * vv + n % d, 0 <= n % d < d
    assert(d * vv == vv * d) by { lemma_mul_is_commutative(d, vv); }
}

// the core inequality of MG10 Theorem 2
pub proof fn lemma_mg10_2x1(u1: int, u0: int, d: int, vv: int, q1: int, q0: int)
    requires
        B / 2 <= d < B, 0 <= u1 < d, 0 <= u0 < B,
        vv == (B * B - 1) / d,
        0 <= q0 < B,
        u1 * vv + u0 == q1 * B + q0,
    ensures
        ({
            let rt = u1 * B + u0 - (q1 + 1) * d;
            let m = if B - d >= q0 { B - d } else { q0 };
            &&& -d <= rt < m
            &&& rt - q0 > -B
            &&& 0 <= q1 < B
        })
{
    let k = B * B - vv * d;
    lemma_k(d, vv);
    let rt = u1 * B + u0 - (q1 + 1) * d;
    // identity: B*rt == u1*k + u0*(B-d) + q0*d - B*d
    assert(B * rt == u1 * k + u0 * (B - d) + q0 * d - B * d) by(nonlinear_arith)
        requires k == B * B - vv * d, rt == u1 * B + u0 - (q1 + 1) * d, u1 * vv + u0 == q1 * B + q0;
    // bounds on the pieces
    assert(0 <= u1 * k <= (d - 1) * d) by(nonlinear_arith) requires 0 <= u1 <= d - 1, 1 <= k <= d;
    assert(0 <= u0 * (B - d) <= (B - 1) * (B - d)) by(nonlinear_arith) requires 0 <= u0 <= B - 1, B - d >= 1;
    assert(0 <= q0 * d) by(nonlinear_arith) requires 0 <= q0, d > 0;
    // lower: B*rt >= q0*d - B*d >= -B*d
    assert(B * rt >= -(B * d));
    assert(rt >= -d) by(nonlinear_arith) requires B * rt >= -(B * d), B > 0;
    // upper: B*rt < (B-d)*(B-d) + q0*d <= B*m
    let m = if B - d >= q0 { B - d } else { q0 };
    assert((d - 1) * d + (B - 1) * (B - d) + q0 * d - B * d < (B - d) * (B - d) + q0 * d) by(nonlinear_arith)
        requires B / 2 <= d < B;
    assert((B - d) * (B - d) + q0 * d <= B * m) by(nonlinear_arith)
        requires B - d <= m, q0 <= m, 0 < d < B, 0 <= q0;
    assert(B * rt < B * m);
    assert(rt < m) by(nonlinear_arith) requires B * rt < B * m, B > 0;
    // rt - q0 > -B :  B*(rt - q0) >= q0*d - B*d - B*q0 > -B*B
    assert(q0 * d - B * d - B * q0 > -(B * B)) by(nonlinear_arith)
        requires 0 <= q0 < B, B / 2 <= d < B;
    assert(B * (rt - q0) > -(B * B)) by(nonlinear_arith)
        requires B * rt >= q0 * d - B * d, q0 * d - B * d - B * q0 > -(B * B);
    assert(rt - q0 > -B) by(nonlinear_arith) requires B * (rt - q0) > -(B * B), B > 0;
    // q1 range: q1*B + q0 = u1*vv + u0 < B*B
    assert(u1 * vv <= (d - 1) * vv) by(nonlinear_arith) requires 0 <= u1 <= d - 1, vv >= 0;
    assert(vv >= B) by {
        // (B*B-1)/d >= B  since d*B <= B*B - 1  (d <= B-1)
        assert(d * B <= B * B - 1) by(nonlinear_arith) requires d <= B - 1, B > 1;
        lemma_div_is_ordered(d * B, B * B - 1, d);
        lemma_div_multiples_vanish(B, d);
        lemma_mul_is_commutative(d, B);
    }
    assert((d - 1) * vv == vv * d - vv) by(nonlinear_arith);
    assert(q1 * B + q0 < B * B);
    assert(q1 < B) by(nonlinear_arith) requires q1 * B + q0 < B * B, q0 >= 0, B > 0;
    assert(q1 >= 0) by(nonlinear_arith) requires q1 * B + q0 >= 0, q0 < B, B > 0;
}


//@ extract src/algorithms/div/small.rs fn div_2x1_mg10
pub fn div_2x1_mg10(u: u128, d: u64, v: u64) -> /*+*/(res:/*-*/ (u64, u64)/*+*/)
    requires
        d as int >= B / 2,
        (u as int) / B < d as int,
        is_reciprocal(d, v),
    ensures
        res.0 as int * d as int + res.1 as int == u as int,
        (res.1 as int) < d as int,/*-*/
{
    /*+*/let ghost u1 = (u as int) / B;
    let ghost u0 = (u as int) % B;
    let ghost vv = v as int + B;
    proof {
        lemma_fundamental_div_mod(u as int, B);
        lemma_u128_shr_is_div(u, 64); lemma2_to64();
        assert((u >> 64) as int == u1);
        lemma_k(d as int, vv);
        // no overflow in u + (u>>64)*v :  u1*vv + u0 < B*B
        assert(u1 * (v as int) <= (d as int - 1) * (v as int)) by(nonlinear_arith) requires 0 <= u1 <= d as int - 1, v as int >= 0;
        assert((d as int - 1) * vv == vv * d as int - vv) by(nonlinear_arith);
        assert(u1 * vv == u1 * (v as int) + u1 * B) by(nonlinear_arith) requires vv == v as int + B;
        assert(u1 * vv <= (d as int - 1) * vv) by(nonlinear_arith) requires 0 <= u1 <= d as int - 1, vv >= 0;
        assert(u1 * (v as int) >= 0) by(nonlinear_arith) requires u1 >= 0, v as int >= 0;
    }
    proof { assert((1u64 << 63) == 0x8000_0000_0000_0000u64) by(bit_vector); assert(B / 2 == 0x8000_0000_0000_0000); }/*-*/
    vassert (d >= (1 << 63) );
    vassert ((u >> 64) < u128::from(d) );
    vassert ( (v ) == ( reciprocal(d) ) );
    let q = u + (u >> 64) * u128::from(v);
    /*+*/let ghost qi = q as int;
    proof { assert(qi == u1 * vv + u0); }/*-*/
    let q0 = q as u64;
    /*+*/let ghost q1i = qi / B;
    let ghost q0i = qi % B;
    proof {
        lemma_fundamental_div_mod(qi, B);
        assert(q0 as int == q0i) by {
            assert(q as u64 == (q % 0x1_0000_0000_0000_0000u128) as u64) by(bit_vector);
        }
        lemma_u128_shr_is_div(q, 64);
        assert((q >> 64) as int == q1i);
        assert(B * q1i == q1i * B) by { lemma_mul_is_commutative(B, q1i); }
        lemma_mg10_2x1(u1, u0, d as int, vv, q1i, q0i);
    }
    let ghost qc = q1i + 1;                         // integer candidate quotient, may equal B
    let ghost rt = u as int - qc * (d as int);/*-*/       // integer candidate remainder, may be negative
    let q1 = ((q >> 64) as u64).wrapping_add(1);
    let r = (u as u64).wrapping_sub(q1.wrapping_mul(d));
    /*+*/proof {
        assert(u as int == u1 * B + u0) by { lemma_mul_is_commutative(B, u1); }
        assert((u as u64) as int == u0) by {
            assert(u as u64 == (u % 0x1_0000_0000_0000_0000u128) as u64) by(bit_vector);
        }
        assert(q1 as int == qc % B);
        // r == rt mod B
        let t = (q1 as int * d as int) % B;
        assert(t == (qc * (d as int)) % B) by { lemma_mul_mod_noop_left(qc, d as int, B); }
        assert(r as int == (u0 - t) % B);
        assert((u0 - t) % B == (u0 - qc * (d as int)) % B) by { lemma_sub_mod_noop_right(u0, qc * (d as int), B); }
        assert((u0 - qc * (d as int)) % B == rt % B) by {
            // rt = u1*B + (u0 - qc*d)
            lemma_mod_multiples_vanish(u1, u0 - qc * (d as int), B);
            assert(B * u1 == u1 * B) by { lemma_mul_is_commutative(B, u1); }
        }
        assert(r as int == rt % B);
    }
    let ghost r_a = r;
    let ghost q1_a = q1;/*-*/
    let (q1, r) = if r > q0 {
        (q1.wrapping_sub(1), r.wrapping_add(d))
    } else {
        (q1, r)
    };
    // after the first adjustment: integer quotient qb in [0,B), remainder rb in [0, 2d) , q1 == qb, r == rb, qb*d + rb == u
    /*+*/let ghost qb: int = if r_a > q0 { qc - 1 } else { qc };
    let ghost rb: int = if r_a > q0 { rt + d as int } else { rt };
    proof {
        let m = if B - d as int >= q0i { B - d as int } else { q0i };
        if rt < 0 {
            // r_a = rt + B > q0  -> decrement taken
            lemma_small_mod((rt + B) as nat, B as nat);
            lemma_mod_add_multiples_vanish(rt, B);
            assert(r_a as int == rt + B);
            assert(r_a > q0);
            assert(rb == rt + d as int);
            assert(0 <= rb < d as int);
            // r = (rt + B + d) % B = rt + d
            lemma_mod_add_multiples_vanish(rt + d as int, B);
            lemma_small_mod((rt + d as int) as nat, B as nat);
            assert(r as int == rb);
            // q1 = (qc % B - 1) % B == qc - 1  (0 <= qc-1 < B)
            lemma_sub_mod_noop(qc, 1, B);
            lemma_small_mod(1, B as nat);
            lemma_small_mod((qc - 1) as nat, B as nat);
            assert(q1 as int == qb);
        } else {
            lemma_small_mod(rt as nat, B as nat);
            assert(r_a as int == rt);
            // qc < B here, because rt >= 0 means qc*d <= u < d*B
            assert(qc < B) by(nonlinear_arith) requires rt >= 0, rt == u as int - qc * (d as int), (u as int) < (d as int) * B, d as int > 0;
            lemma_small_mod(qc as nat, B as nat);
            assert(q1_a as int == qc);
            if r_a > q0 {
                // then m == B - d > rt, so rt + d < B: no wrap
                assert(rt < B - d as int);
                lemma_small_mod((rt + d as int) as nat, B as nat);
                assert(r as int == rb);
                lemma_small_mod((qc - 1) as nat, B as nat);
                assert(q1 as int == qb);
            } else {
                assert(r as int == rb);
                assert(q1 as int == qb);
            }
        }
        assert(qb * (d as int) + rb == u as int) by(nonlinear_arith)
            requires rt == u as int - qc * (d as int), (qb == qc - 1 && rb == rt + d as int) || (qb == qc && rb == rt);
        assert(0 <= rb < 2 * d as int);
        assert(0 <= qb);
    }
    let ghost q1_b = q1;
    let ghost r_b = r;/*-*/
    let (q1, r) = if (r >= d) {
        (q1.wrapping_add(1), r.wrapping_sub(d))
    } else {
        (q1, r)
    };
    /*+*/proof {
        if r_b >= d {
            lemma_small_mod((rb - d as int) as nat, B as nat);
            assert(r as int == rb - d as int);
            // qb + 1 < B because (qb+1)*d <= u < d*B
            assert(qb + 1 < B) by(nonlinear_arith)
                requires qb * (d as int) + rb == u as int, rb >= d as int, (u as int) < (d as int) * B, d as int > 0;
            lemma_small_mod((qb + 1) as nat, B as nat);
            assert(q1 as int == qb + 1);
            assert((qb + 1) * (d as int) + (rb - d as int) == u as int) by(nonlinear_arith)
                requires qb * (d as int) + rb == u as int;
        }
    }/*-*/
    (q1, r)
}
//@ end

//@ extract src/algorithms/mod.rs trait DoubleWord
pub trait DoubleWord<T>: Sized + Copy {
    fn join(high: T, low: T) -> Self;
    fn add(a: T, b: T) -> Self;
    fn mul(a: T, b: T) -> Self;
    fn muladd(a: T, b: T, c: T) -> Self;
    fn muladd2(a: T, b: T, c: T, d: T) -> Self;
    fn high(self) -> T;
    fn low(self) -> T;
    fn split(self) -> (T, T);
}
//@ end
impl DoubleWord<u64> for u128 {
//@ import kernels join
//@ import kernels add
//@ import kernels mul
//@ import kernels muladd
//@ import kernels muladd2
//@ import kernels high
//@ import kernels low
//@ import kernels split
}

// aliases (src/algorithms/div/small.rs, reciprocal.rs:  pub use self::{div_2x1_mg10 as div_2x1, div_3x2_mg10 as div_3x2, reciprocal_2_mg10 as reciprocal_2})
pub fn div_2x1(u: u128, d: u64, v: u64) -> (res: (u64, u64))
    requires d as int >= B / 2, (u as int) / B < d as int, is_reciprocal(d, v),
    ensures res.0 as int * d as int + res.1 as int == u as int, (res.1 as int) < d as int,
{ div_2x1_mg10(u, d, v) }
pub fn div_3x2(u21: u128, u0: u64, d: u128, v: u64) -> (res: (u64, u128))
    requires d as int >= B * B / 2, u21 < d, is_reciprocal_2(d, v),
    ensures res.0 as int * d as int + res.1 as int == u21 as int * B + u0 as int, res.1 < d,
{ div_3x2_mg10(u21, u0, d, v) }
pub fn reciprocal_2(d: u128) -> (v: u64)
    requires d as int >= B * B / 2
    ensures is_reciprocal_2(d, v)
{ reciprocal_2_mg10(d) }


// x is floor((n-1)/d)  iff  n - d <= x*d < n
pub proof fn lemma_floor_char(n: int, d: int, x: int)
    requires d > 0, n - d <= x * d < n
    ensures x == (n - 1) / d
{
    lemma_fundamental_div_mod_converse(n - 1, d, x, n - 1 - x * d);
    assert(d * x == x * d) by { lemma_mul_is_commutative(d, x); }
}
pub proof fn lemma_floor_char_rev(n: int, d: int)
    requires d > 0
    ensures n - d <= ((n - 1) / d) * d < n
{
    lemma_fundamental_div_mod(n - 1, d);
    lemma_mod_bound(n - 1, d);
    assert(d * ((n - 1) / d) == ((n - 1) / d) * d) by { lemma_mul_is_commutative(d, (n - 1) / d); }
}

//@ extract src/algorithms/div/reciprocal.rs fn reciprocal_2_mg10
pub fn reciprocal_2_mg10(d: u128) -> /*+*/(res:/*-*/ u64/*+*/)
    requires d as int >= B * B / 2
    ensures is_reciprocal_2(d, res)/*-*/
{
    /*+*/proof { assert((1u128 << 127) == 0x8000_0000_0000_0000_0000_0000_0000_0000u128) by(bit_vector); assert(B * B == 0x1_0000_0000_0000_0000_0000_0000_0000_0000) by(compute_only); }/*-*/
    vassert (d >= (1 << 127) );
    let d1 = (d >> 64) as u64;
    let d0 = d as u64;
    /*+*/let ghost d1i = d1 as int;
    let ghost d0i = d0 as int;
    let ghost di = d as int;
    proof {
        assert(B * B == 0x1_0000_0000_0000_0000_0000_0000_0000_0000) by(compute_only);
        lemma_u128_shr_is_div(d, 64); lemma2_to64();
        assert(d as u64 == (d % 0x1_0000_0000_0000_0000u128) as u64) by(bit_vector);
        lemma_fundamental_div_mod(di, B);
        assert(B * d1i == d1i * B) by(nonlinear_arith);
        assert(di == d1i * B + d0i);
        assert(d1i >= B / 2) by(nonlinear_arith) requires di == d1i * B + d0i, d0i < B, di >= B * B / 2, B == 0x1_0000_0000_0000_0000;
    }/*-*/

    let mut v = reciprocal(d1);
    /*+*/let ghost v0 = v as int;
    proof {
        lemma_floor_char_rev(B * B, d1i);
        // B*B - d1 <= (B+v0)*d1 < B*B
    }/*-*/
    let mut p = d1.wrapping_mul(v).wrapping_add(d0);
    // integer bookkeeping: e = (B+vi)*d1 + d0
    /*+*/let ghost e0 = (B + v0) * d1i + d0i;
    let ghost vi: int = v0;
    proof {
        // a = (d1*v0) mod B == (B+v0)*d1 - (B*B - B)
        let a = (B + v0) * d1i - (B * B - B);
        assert(0 <= a < B);
        assert((d1i * v0) == a + (B - 1 - d1i) * B) by(nonlinear_arith) requires a == (B + v0) * d1i - (B * B - B);
        lemma_mod_multiples_vanish(B - 1 - d1i, a, B);
        lemma_small_mod(a as nat, B as nat);
        assert((d1i * v0) % B == a);
        assert(p as int == (a + d0i) % B);
        assert(e0 == a + d0i + (B * B - B));
    }
    // OPT: This is checking the carry flag
    let ghost p0 = p;
    let ghost carry1 = e0 >= B * B;
    proof {
        let a = (B + v0) * d1i - (B * B - B);
        if a + d0i >= B {
            lemma_mod_sub_multiples_vanish(a + d0i, B);  // (x - B) % B == x % B
            lemma_small_mod((a + d0i - B) as nat, B as nat);
            assert(p0 as int == a + d0i - B);
            assert(p0 < d0);
        } else {
            lemma_small_mod((a + d0i) as nat, B as nat);
            assert(p0 as int == a + d0i);
            assert(p0 >= d0);
        }
        assert((p0 < d0) == carry1);
    }
    let ghost mut e = e0;/*-*/
    if p < d0 {
        v = v.wrapping_sub(1);
        /*+*/proof { e = e - d1i; }
        let ghost p_in = p as int;/*-*/       // == e0 - B*B
        if p >= d1 {
            v = v.wrapping_sub(1);
            p = p.wrapping_sub(d1);
            /*+*/proof { e = e - d1i; }/*-*/
        }
        p = p.wrapping_sub(d1);
        /*+*/proof {
            assert(p_in == e0 - B * B);
            // now B*B - d1 <= e < B*B and p == e - B*B + B
            if p_in >= d1i {
                assert(e == e0 - 2 * d1i);
                lemma_small_mod((p_in - d1i) as nat, B as nat);
                // second wrapping_sub: (p_in - d1 - d1) % B ; p_in - 2 d1 in [-d1, 0) -> + B
                lemma_mod_add_multiples_vanish(p_in - 2 * d1i, B);
                lemma_small_mod((p_in - 2 * d1i + B) as nat, B as nat);
                assert(p as int == p_in - 2 * d1i + B);
            } else {
                assert(e == e0 - d1i);
                lemma_mod_add_multiples_vanish(p_in - d1i, B);
                lemma_small_mod((p_in - d1i + B) as nat, B as nat);
                assert(p as int == p_in - d1i + B);
            }
        }/*-*/
    }
    /*+*/let ghost c1: int = (e0 - e) / 1;   // e0 - e == c*d1 with c in {0,1,2}
    let ghost vi1: int = if !carry1 { v0 } else if (e0 - B * B) >= d1i { v0 - 2 } else { v0 - 1 };
    proof {
        assert(e == (B + vi1) * d1i + d0i) by(nonlinear_arith)
            requires e0 == (B + v0) * d1i + d0i,
                (vi1 == v0 && e == e0) || (vi1 == v0 - 1 && e == e0 - d1i) || (vi1 == v0 - 2 && e == e0 - 2 * d1i);
        assert(B * B - d1i <= e < B * B);
        assert(p as int == e - B * B + B);
    }
    proof {
        // machine v == vi1 (no wrap): vi1 >= 0 because e >= B*B - d1 and d < B*B
        assert(vi1 >= 0) by(nonlinear_arith)
            requires e == (B + vi1) * d1i + d0i, e >= B * B - d1i, d1i * B + d0i < B * B, d1i > 0;
        lemma_small_mod(1, B as nat);
        if vi1 == v0 - 1 { lemma_small_mod((v0 - 1) as nat, B as nat); }
        if vi1 == v0 - 2 { lemma_small_mod((v0 - 1) as nat, B as nat); lemma_small_mod((v0 - 2) as nat, B as nat); }
        assert(v as int == vi1);
        assert((v as int) * d0i <= 0xffff_ffff_ffff_ffff * 0xffff_ffff_ffff_ffff) by(nonlinear_arith)
            requires 0 <= v as int <= 0xffff_ffff_ffff_ffff, 0 <= d0i <= 0xffff_ffff_ffff_ffff;
        assert((v as int) * d0i >= 0) by(nonlinear_arith) requires v as int >= 0, d0i >= 0;
    }/*-*/
    let t = u128::from(v) * u128::from(d0);
    let t1 = (t >> 64) as u64;
    let t0 = t as u64;
    /*+*/let ghost ti = t as int;
    let ghost t1i = t1 as int;
    let ghost t0i = t0 as int;
    proof {
        lemma_u128_shr_is_div(t, 64); lemma2_to64();
        assert(t as u64 == (t % 0x1_0000_0000_0000_0000u128) as u64) by(bit_vector);
        lemma_fundamental_div_mod(ti, B);
        assert(B * t1i == t1i * B) by(nonlinear_arith);
        assert(ti == t1i * B + t0i);
        assert(ti == vi1 * d0i);
    }
    // E = (B+vi1)*d == (e + t1)*B + t0
    let ghost big_e = (B + vi1) * di;
    proof {
        assert(big_e == (e + t1i) * B + t0i) by(nonlinear_arith)
            requires big_e == (B + vi1) * di, di == d1i * B + d0i, e == (B + vi1) * d1i + d0i, vi1 * d0i == t1i * B + t0i;
    }
    let ghost p1 = p as int;/*-*/
    let p = p.wrapping_add(t1);
    /*+*/let ghost carry2 = e + t1i >= B * B;
    proof {
        if p1 + t1i >= B {
            lemma_mod_sub_multiples_vanish(p1 + t1i, B);
            lemma_small_mod((p1 + t1i - B) as nat, B as nat);
            assert(p as int == p1 + t1i - B);
        } else {
            lemma_small_mod((p1 + t1i) as nat, B as nat);
        }
        assert((p < t1) == carry2);
    }/*-*/
    // OPT: This is checking the carry flag
    if p < t1 {
        v = v.wrapping_sub(1);
        /*+*/proof {
            // <p, t0> == E - B^3
            assert(p as int == e + t1i - B * B);
            let ph = p as u128; let tl = t0 as u128;
            assert(((ph << 64) | tl) == ph * 0x1_0000_0000_0000_0000u128 + tl) by(bit_vector)
                requires ph < 0x1_0000_0000_0000_0000u128, tl < 0x1_0000_0000_0000_0000u128;
            assert((((ph << 64) | tl) as int) == (p as int) * B + t0i);
            assert((p as int) * B + t0i == big_e - B * B * B) by(nonlinear_arith)
                requires p as int == e + t1i - B * B, big_e == (e + t1i) * B + t0i;
        }/*-*/
        if (u128::from(p) << 64) | u128::from(t0) >= d {
            v = v.wrapping_sub(1);
        }
    }
    /*+*/let ghost vf: int = if !carry2 { vi1 } else if big_e - B * B * B >= di { vi1 - 2 } else { vi1 - 1 };
    proof {
        let n = B * B * B;
        // (B+vf)*d in [n - d, n)
        assert((B + vf) * di == big_e - (vi1 - vf) * di) by(nonlinear_arith) requires big_e == (B + vi1) * di;
        assert(e * B >= n - d1i * B) by(nonlinear_arith) requires e >= B * B - d1i, n == B * B * B, B > 0;
        assert(t1i * B + t0i >= 0);
        if !carry2 {
            assert(big_e < n) by(nonlinear_arith) requires big_e == (e + t1i) * B + t0i, e + t1i <= B * B - 1, t0i <= B - 1, n == B * B * B;
            assert(big_e >= n - di) by(nonlinear_arith) requires big_e == (e + t1i) * B + t0i, e * B >= n - d1i * B, t1i >= 0, t0i >= 0, di == d1i * B + d0i, d0i >= 0;
        } else {
            assert(big_e >= n) by(nonlinear_arith) requires big_e == (e + t1i) * B + t0i, e + t1i >= B * B, t0i >= 0, n == B * B * B;
            assert(big_e < n + 2 * di) by(nonlinear_arith)
                requires big_e == (e + t1i) * B + t0i, e <= B * B - 1, t1i <= B - 1, t0i <= B - 1, n == B * B * B, di >= B * B / 2, B == 0x1_0000_0000_0000_0000;
        }
        assert((vi1 - vf) * di == (if vf == vi1 { 0 } else if vf == vi1 - 1 { di } else { 2 * di })) by(nonlinear_arith)
            requires vf == vi1 || vf == vi1 - 1 || vf == vi1 - 2;
        assert(n - di <= (B + vf) * di < n);
        lemma_floor_char(n, di, B + vf);
        // machine v == vf : vf >= 0 since floor((B^3-1)/d) >= B
        assert(B + vf >= B) by {
            assert(di * B <= n - 1) by(nonlinear_arith) requires di <= B * B - 1, n == B * B * B, B > 1;
            lemma_div_is_ordered(di * B, n - 1, di);
            lemma_div_multiples_vanish(B, di);
            assert(B * di == di * B) by(nonlinear_arith);
        }
        lemma_small_mod(1, B as nat);
        if vf == vi1 - 1 { lemma_small_mod((vi1 - 1) as nat, B as nat); }
        if vf == vi1 - 2 { lemma_small_mod((vi1 - 1) as nat, B as nat); lemma_small_mod((vi1 - 2) as nat, B as nat); }
        assert(v as int == vf);
    }/*-*/
    v
}
//@ end


// k = B^3 - vv*d in [1, d], vv in [B, 2B)
pub proof fn lemma_k3(d: int, vv: int)
    requires B * B / 2 <= d < B * B, vv == (B * B * B - 1) / d
    ensures 1 <= B * B * B - vv * d <= d, B <= vv < 2 * B
{
    let n = B * B * B - 1;
    lemma_fundamental_div_mod(n, d);
    lemma_mod_bound(n, d);
    assert(d * vv == vv * d) by { lemma_mul_is_commutative(d, vv); }
    // vv >= B : d*B <= n
    assert(d * B <= n) by(nonlinear_arith) requires d <= B * B - 1, n == B * B * B - 1, B > 1;
    lemma_div_is_ordered(d * B, n, d);
    lemma_div_multiples_vanish(B, d);
    assert(B * d == d * B) by { lemma_mul_is_commutative(d, B); }
    // vv < 2B : vv*d <= n < 2B*d
    assert(n < 2 * B * d) by(nonlinear_arith) requires d >= B * B / 2, n == B * B * B - 1, B == 0x1_0000_0000_0000_0000;
    assert(vv < 2 * B) by(nonlinear_arith) requires vv * d <= n, n < 2 * B * d, d > 0;
}

// MG10 Theorem 3, the candidate-remainder bounds
pub proof fn lemma_mg10_3x2(u2: int, u1: int, u0: int, d1: int, d0: int, vv: int, q1: int, q0: int)
    requires
        0 <= u2 < B, 0 <= u1 < B, 0 <= u0 < B, 0 <= d1 < B, 0 <= d0 < B,
        B * B / 2 <= d1 * B + d0,
        u2 * B + u1 < d1 * B + d0,
        vv == (B * B * B - 1) / (d1 * B + d0),
        0 <= q0 < B,
        u2 * vv + u1 == q1 * B + q0,
    ensures
        ({
            let d = d1 * B + d0;
            let rt = (u2 * B + u1) * B + u0 - (q1 + 1) * d;
            let m = if B * B - d >= q0 * B { B * B - d } else { q0 * B };
            &&& m - B * B <= rt < m
            &&& 0 <= q1 < B
        })
{
    let d = d1 * B + d0;
    let s = B * B - d;
    let k = B * B * B - vv * d;
    let v = vv - B;
    assert(d < B * B) by(nonlinear_arith) requires d == d1 * B + d0, d1 <= B - 1, d0 <= B - 1;
    lemma_k3(d, vv);
    let rt = (u2 * B + u1) * B + u0 - (q1 + 1) * d;
    let m = if s >= q0 * B { s } else { q0 * B };
    let f = u2 * k + u1 * s + u0 * B - B * d;
    // identity  B*rt == F + q0*d
    assert(B * rt == f + q0 * d) by(nonlinear_arith)
        requires k == B * B * B - vv * d, s == B * B - d, f == u2 * k + u1 * s + u0 * B - B * d,
                 rt == (u2 * B + u1) * B + u0 - (q1 + 1) * d, u2 * vv + u1 == q1 * B + q0;
    assert(1 <= s <= B * B / 2 + 1);
    // ---- lower bound ----
    assert(u2 * k >= 0) by(nonlinear_arith) requires u2 >= 0, k >= 1;
    assert(u1 * s >= 0) by(nonlinear_arith) requires u1 >= 0, s >= 1;
    assert(u0 * B >= 0) by(nonlinear_arith) requires u0 >= 0;
    assert(f >= -(B * d));
    assert(q0 * d >= 0) by(nonlinear_arith) requires q0 >= 0, d > 0;
    if s >= q0 * B {
        // m = s = B^2 - d ; need rt >= -d
        assert(B * rt >= -(B * d));
        assert(rt >= -d) by(nonlinear_arith) requires B * rt >= -(B * d), B > 0;
    } else {
        // m = q0*B ; need rt >= q0*B - B^2 :  B*rt >= q0*d - B*d >= B*(q0*B - B*B)
        assert(q0 * d - B * d >= B * (q0 * B - B * B)) by(nonlinear_arith)
            requires 0 <= q0 < B, s == B * B - d, s >= 1;
        assert(rt >= q0 * B - B * B) by(nonlinear_arith)
            requires B * rt >= B * (q0 * B - B * B), B > 0;
    }
    // ---- upper bound:  B*F < s*s ----
    assert(k == B * s - v * d) by(nonlinear_arith) requires k == B * B * B - vv * d, s == B * B - d, v == vv - B;
    assert(k <= B * s) by(nonlinear_arith) requires k == B * s - v * d, v >= 0, d > 0;
    // u2 <= d1
    assert(u2 <= d1) by(nonlinear_arith) requires u2 * B + u1 < d1 * B + d0, u1 >= 0, d0 < B;
    assert(B * f < s * s) by {
        if u2 <= d1 - 1 {
            // Case A
            assert(u2 * k <= (d1 - 1) * d) by(nonlinear_arith) requires 0 <= u2 <= d1 - 1, 1 <= k <= d;
            assert(u1 * s <= (B - 1) * s) by(nonlinear_arith) requires u1 <= B - 1, s >= 1;
            assert(u0 * B <= (B - 1) * B) by(nonlinear_arith) requires u0 <= B - 1;
            assert(B * ((d1 - 1) * d + (B - 1) * s + (B - 1) * B - B * d) < s * s) by(nonlinear_arith)
                requires d == d1 * B + d0, 0 <= d0, s == B * B - d, s >= 1, d >= 1, B == 0x1_0000_0000_0000_0000;
            assert(B * f <= B * ((d1 - 1) * d + (B - 1) * s + (B - 1) * B - B * d)) by(nonlinear_arith)
                requires f == u2 * k + u1 * s + u0 * B - B * d, u2 * k <= (d1 - 1) * d, u1 * s <= (B - 1) * s, u0 * B <= (B - 1) * B, B > 0;
        } else {
            // Case B: u2 == d1, u1 <= d0 - 1
            assert(u2 == d1);
            assert(u1 <= d0 - 1);
            assert(u1 * s <= (d0 - 1) * s) by(nonlinear_arith) requires u1 <= d0 - 1, s >= 1;
            assert(u0 * B <= (B - 1) * B) by(nonlinear_arith) requires u0 <= B - 1;
            if B * s <= d && s <= B - 1 {
                assert(d1 * k <= d1 * (B * s)) by(nonlinear_arith) requires d1 >= 0, k <= B * s;
                assert(B * (d1 * (B * s) + (d0 - 1) * s + (B - 1) * B - B * d) < s * s) by(nonlinear_arith)
                    requires d == d1 * B + d0, s == B * B - d, 1 <= s <= B - 1, B == 0x1_0000_0000_0000_0000;
                assert(B * f <= B * (d1 * (B * s) + (d0 - 1) * s + (B - 1) * B - B * d)) by(nonlinear_arith)
                    requires f == u2 * k + u1 * s + u0 * B - B * d, u2 == d1, d1 * k <= d1 * (B * s), u1 * s <= (d0 - 1) * s, u0 * B <= (B - 1) * B, B > 0;
            } else {
                assert(d1 * k <= d1 * d) by(nonlinear_arith) requires d1 >= 0, k <= d;
                assert(B * (d1 * d + (d0 - 1) * s + (B - 1) * B - B * d) < s * s) by(nonlinear_arith)
                    requires d == d1 * B + d0, 0 <= d0 <= B - 1, s == B * B - d, s >= 1, (B * s > d || s >= B - 1),
                             d >= B * B / 2, B == 0x1_0000_0000_0000_0000;
                assert(B * f <= B * (d1 * d + (d0 - 1) * s + (B - 1) * B - B * d)) by(nonlinear_arith)
                    requires f == u2 * k + u1 * s + u0 * B - B * d, u2 == d1, d1 * k <= d1 * d, u1 * s <= (d0 - 1) * s, u0 * B <= (B - 1) * B, B > 0;
            }
        }
    }
    // B*F < s^2  ==>  rt < m
    assert(B * B * (f + q0 * d) < B * (s * s) + B * B * (q0 * d)) by(nonlinear_arith) requires B * f < s * s, B > 0;
    assert(B * B * B * m >= B * (s * s) + B * B * (q0 * d)) by(nonlinear_arith)
        requires m >= s, m >= q0 * B, s + d == B * B, s >= 1, d >= 1, q0 >= 0, B > 0;
    assert(B * B * (B * rt) < B * B * B * m);
    assert(rt < m) by(nonlinear_arith) requires B * B * (B * rt) < B * B * B * m, B > 0;
    // q1 range:  B*(u2*vv + u1) < B^3
    assert(vv * d <= B * B * B - 1);
    assert(B * (u2 * vv + u1) < B * B * B) by {
        if u2 <= d1 - 1 {
            assert(B * (u2 * vv) <= (d - d0 - B) * vv) by(nonlinear_arith)
                requires 0 <= u2 <= d1 - 1, d == d1 * B + d0, vv >= 0;
            assert((d - d0 - B) * vv <= B * B * B - 1 - B * vv) by(nonlinear_arith)
                requires vv * d <= B * B * B - 1, d0 >= 0, vv >= 0;
            assert(B * vv >= B * B) by(nonlinear_arith) requires vv >= B, B > 0;
            assert(B * u1 <= B * B - B) by(nonlinear_arith) requires u1 <= B - 1, B > 0;
            assert(B * (u2 * vv + u1) == B * (u2 * vv) + B * u1) by(nonlinear_arith);
        } else {
            assert(u2 == d1 && u1 <= d0 - 1);
            assert(B * (u2 * vv) == (d - d0) * vv) by(nonlinear_arith) requires u2 == d1, d == d1 * B + d0;
            assert((d - d0) * vv == vv * d - d0 * vv) by(nonlinear_arith);
            assert(d0 * vv >= d0 * B) by(nonlinear_arith) requires d0 >= 0, vv >= B;
            assert(B * u1 <= B * d0 - B) by(nonlinear_arith) requires u1 <= d0 - 1, B > 0;
            assert(B * d0 == d0 * B) by(nonlinear_arith);
            assert(B * (u2 * vv + u1) == B * (u2 * vv) + B * u1) by(nonlinear_arith);
        }
    }
    assert(u2 * vv + u1 < B * B) by(nonlinear_arith) requires B * (u2 * vv + u1) < B * B * B, B > 0;
    assert(q1 < B) by(nonlinear_arith) requires q1 * B + q0 < B * B, q0 >= 0, B > 0;
    assert(q1 >= 0) by(nonlinear_arith) requires q1 * B + q0 >= 0, q0 < B, B > 0;
}

// ---------- machine-arithmetic lemmas, kept out of the exec query (see DESIGN 3.5 "query shape") ----------

// the wrapping computation of r equals the candidate remainder mod B^2
pub proof fn lemma_3x2_r_mod(u2: int, u1: int, u0: int, d1: int, d0: int, q1i: int, r1: int, t: int, r: int)
    requires
        0 <= d1 * B + d0 < B * B,
        r1 == (u1 - (q1i * d1) % B) % B,
        t == d0 * q1i,
        r == ((r1 * B + u0 - t) % (B * B) - (d1 * B + d0)) % (B * B),
    ensures
        r == ((u2 * B + u1) * B + u0 - (q1i + 1) * (d1 * B + d0)) % (B * B)
{
    let bb = B * B;
    let di = d1 * B + d0;
    let rt = (u2 * B + u1) * B + u0 - (q1i + 1) * di;
    lemma_sub_mod_noop_right(u1, q1i * d1, B);
    assert(r1 == (u1 - q1i * d1) % B);
    let j = r1 * B + u0;
    lemma_sub_mod_noop((j - t), di, bb);
    lemma_small_mod(di as nat, bb as nat);
    assert(r == (j - t - di) % bb);
    let a = u1 - q1i * d1;
    lemma_fundamental_div_mod(a, B);
    assert((a % B) * B + u0 - t - di == (a * B + u0 - t - di) + (-(a / B)) * bb) by(nonlinear_arith)
        requires a == B * (a / B) + a % B, bb == B * B;
    lemma_mod_multiples_vanish(-(a / B), a * B + u0 - t - di, bb);
    assert(r == (a * B + u0 - t - di) % bb);
    assert(a * B + u0 - t - di == rt + (-u2) * bb) by(nonlinear_arith)
        requires a == u1 - q1i * d1, t == d0 * q1i, di == d1 * B + d0, rt == (u2 * B + u1) * B + u0 - (q1i + 1) * di, bb == B * B;
    lemma_mod_multiples_vanish(-u2, rt, bb);
}

// first adjustment: decide on  floor(r/B) >= q0
pub proof fn lemma_3x2_adjust1(rt: int, di: int, q0i: int, qc: int, ui: int)
    requires
        B * B / 2 <= di < B * B, 0 <= q0i < B, 1 <= qc <= B,
        rt == ui - qc * di, 0 <= ui < di * B,
        ({ let m = if B * B - di >= q0i * B { B * B - di } else { q0i * B }; m - B * B <= rt < m }),
    ensures
        ({
            let bb = B * B;
            let ra = rt % bb;
            let c = ra / B >= q0i;
            let qb = if c { qc - 1 } else { qc };
            let rb = if c { rt + di } else { rt };
            &&& 0 <= ra < bb
            &&& c ==> (ra + di) % bb == rb && (qc % B - 1) % B == qb
            &&& !c ==> ra == rb && qc % B == qb
            &&& 0 <= rb < 2 * di && 0 <= qb && qb * di + rb == ui
        })
{
    let bb = B * B;
    let m = if bb - di >= q0i * B { bb - di } else { q0i * B };
    let ra = rt % bb;
    lemma_mod_bound(rt, bb);
    lemma_fundamental_div_mod(ra, B);
    lemma_mod_bound(ra, B);
    let c = ra / B >= q0i;
    assert(c == (ra >= q0i * B)) by(nonlinear_arith)
        requires c == (ra / B >= q0i), ra == B * (ra / B) + ra % B, 0 <= ra % B < B;
    assert(m <= bb) by(nonlinear_arith) requires m == (if bb - di >= q0i * B { bb - di } else { q0i * B }), q0i < B, q0i >= 0, di > 0, bb == B * B;
    let qb = if c { qc - 1 } else { qc };
    let rb = if c { rt + di } else { rt };
    if rt < 0 {
        lemma_mod_add_multiples_vanish(rt, bb);
        lemma_small_mod((rt + bb) as nat, bb as nat);
        assert(ra == rt + bb);
        assert(c);
        lemma_mod_add_multiples_vanish(rt + di, bb);
        lemma_small_mod((rt + di) as nat, bb as nat);
        lemma_sub_mod_noop(qc, 1, B);
        lemma_small_mod(1, B as nat);
        lemma_small_mod((qc - 1) as nat, B as nat);
    } else {
        lemma_small_mod(rt as nat, bb as nat);
        assert(ra == rt);
        assert(qc < B) by(nonlinear_arith) requires rt >= 0, rt == ui - qc * di, ui < di * B, di > 0;
        lemma_small_mod(qc as nat, B as nat);
        if c {
            assert(rt < bb - di);
            lemma_small_mod((rt + di) as nat, bb as nat);
            lemma_small_mod((qc - 1) as nat, B as nat);
        }
    }
    assert(qb * di + rb == ui) by(nonlinear_arith)
        requires rt == ui - qc * di, (qb == qc - 1 && rb == rt + di) || (qb == qc && rb == rt);
}

// second (rare) adjustment
pub proof fn lemma_3x2_adjust2(qb: int, rb: int, di: int, ui: int)
    requires qb * di + rb == ui, di <= rb < 2 * di, 0 <= ui < di * B, 0 <= qb, 0 < di < B * B
    ensures qb + 1 < B, (rb - di) % (B * B) == rb - di, (qb + 1) % B == qb + 1, (qb + 1) * di + (rb - di) == ui
{
    lemma_small_mod((rb - di) as nat, (B * B) as nat);
    assert(qb + 1 < B) by(nonlinear_arith) requires qb * di + rb == ui, rb >= di, ui < di * B, di > 0;
    lemma_small_mod((qb + 1) as nat, B as nat);
    assert((qb + 1) * di + (rb - di) == ui) by(nonlinear_arith) requires qb * di + rb == ui;
}

// everything the exec function needs, in terms of the machine values only
pub proof fn lemma_3x2_q_no_overflow(u21i: int, di: int, vi: int)
    requires B * B / 2 <= di < B * B, 0 <= u21i < di, 0 <= vi < B, vi + B == (B * B * B - 1) / di
    ensures 0 <= (u21i / B) * vi, (u21i / B) * vi + u21i < B * B
{
    let u2 = u21i / B; let u1 = u21i % B; let d1 = di / B; let d0 = di % B; let vv = vi + B;
    lemma_fundamental_div_mod(u21i, B);
    lemma_fundamental_div_mod(di, B);
    assert(B * u2 == u2 * B && B * d1 == d1 * B) by(nonlinear_arith);
    assert(0 <= u2 < B && 0 <= d1 < B) by(nonlinear_arith)
        requires u21i == B * u2 + u1, di == B * d1 + d0, 0 <= u1 < B, 0 <= d0 < B, 0 <= u21i, u21i < B * B, 0 <= di, di < B * B;
    let qi = u2 * vv + u1;
    lemma_fundamental_div_mod(qi, B);
    assert(B * (qi / B) == (qi / B) * B) by(nonlinear_arith);
    lemma_mod_bound(qi, B);
    lemma_mg10_3x2(u2, u1, 0, d1, d0, vv, qi / B, qi % B);
    assert(qi < B * B) by(nonlinear_arith) requires qi == (qi / B) * B + qi % B, qi / B <= B - 1, qi % B <= B - 1;
    assert(u2 * vi + u21i == qi) by(nonlinear_arith) requires vv == vi + B, u21i == u2 * B + u1, qi == u2 * vv + u1;
    assert(u2 * vi >= 0) by(nonlinear_arith) requires u2 >= 0, vi >= 0;
}

#[verifier::opaque]
pub open spec fn res_3x2(u21i: int, u0i: int, di: int, vi: int) -> (int, int) {
    let bb = B * B;
    let qi = (u21i / B) * vi + u21i;
    let r1 = (u21i % B - ((qi / B) * (di / B)) % B) % B;
    let t = (di % B) * (qi / B);
    let r = ((r1 * B + u0i - t) % bb - di) % bb;
    let q1 = (qi / B + 1) % B;
    let c = r / B >= qi % B;
    let r_a = if c { (r + di) % bb } else { r };
    let q_a = if c { (q1 - 1) % B } else { q1 };
    let c2 = r_a >= di;
    (if c2 { (q_a + 1) % B } else { q_a }, if c2 { (r_a - di) % bb } else { r_a })
}

pub proof fn lemma_3x2_all(u21i: int, u0i: int, di: int, vi: int)
    requires B * B / 2 <= di < B * B, 0 <= u21i < di, 0 <= u0i < B, 0 <= vi < B, vi + B == (B * B * B - 1) / di
    ensures ({
        let (qf, rf) = res_3x2(u21i, u0i, di, vi);
        qf * di + rf == u21i * B + u0i && 0 <= rf < di && 0 <= qf < B
    })
{
    reveal(res_3x2);
    let bb = B * B;
    let u2 = u21i / B; let u1 = u21i % B; let d1 = di / B; let d0 = di % B; let vv = vi + B;
    let ui = u21i * B + u0i;
    lemma_fundamental_div_mod(u21i, B);
    lemma_fundamental_div_mod(di, B);
    assert(B * u2 == u2 * B && B * d1 == d1 * B) by(nonlinear_arith);
    assert(0 <= u2 < B && 0 <= d1 < B) by(nonlinear_arith)
        requires u21i == B * u2 + u1, di == B * d1 + d0, 0 <= u1 < B, 0 <= d0 < B, 0 <= u21i, u21i < B * B, 0 <= di, di < B * B;
    let qi = u2 * vi + u21i;
    let qi2 = u2 * vv + u1;
    assert(qi == qi2) by(nonlinear_arith) requires vv == vi + B, u21i == u2 * B + u1, qi == u2 * vi + u21i, qi2 == u2 * vv + u1;
    lemma_fundamental_div_mod(qi, B);
    assert(B * (qi / B) == (qi / B) * B) by(nonlinear_arith);
    lemma_mod_bound(qi, B);
    let q1i = qi / B; let q0i = qi % B; let qc = q1i + 1;
    lemma_mg10_3x2(u2, u1, u0i, d1, d0, vv, q1i, q0i);
    let rt = ui - qc * di;
    assert(ui == (u2 * B + u1) * B + u0i);
    assert(di == d1 * B + d0);
    assert(ui < di * B) by(nonlinear_arith) requires ui == u21i * B + u0i, u21i <= di - 1, u0i < B;
    assert(ui >= 0) by(nonlinear_arith) requires ui == u21i * B + u0i, u21i >= 0, u0i >= 0;
    let r1 = (u1 - (q1i * d1) % B) % B;
    let t = d0 * q1i;
    let r = ((r1 * B + u0i - t) % bb - di) % bb;
    lemma_3x2_r_mod(u2, u1, u0i, d1, d0, q1i, r1, t, r);
    assert(rt == (u2 * B + u1) * B + u0i - (q1i + 1) * (d1 * B + d0));
    assert(r == rt % bb);
    lemma_3x2_adjust1(rt, di, q0i, qc, ui);
    let c = r / B >= q0i;
    let qb = if c { qc - 1 } else { qc };
    let rb = if c { rt + di } else { rt };
    if rb >= di { lemma_3x2_adjust2(qb, rb, di, ui); }
    else { lemma_small_mod(qb as nat, B as nat); assert(qb < B) by(nonlinear_arith) requires qb * di + rb == ui, rb >= 0, ui < di * B, di > 0; }
}

//@ extract src/algorithms/div/small.rs fn div_3x2_mg10
pub fn div_3x2_mg10(u21: u128, u0: u64, d: u128, v: u64) -> /*+*/(res:/*-*/ (u64, u128)/*+*/)
    requires
        d as int >= B * B / 2,
        u21 < d,
        is_reciprocal_2(d, v),
    ensures
        res.0 as int * d as int + res.1 as int == u21 as int * B + u0 as int,
        res.1 < d,/*-*/
{
    /*+*/proof {
        assert(B * B == 0x1_0000_0000_0000_0000_0000_0000_0000_0000) by(compute_only);
        lemma_3x2_q_no_overflow(u21 as int, d as int, v as int);
        assert((1u128 << 127) == 0x8000_0000_0000_0000_0000_0000_0000_0000u128) by(bit_vector);
    }/*-*/
    vassert (d >= (1 << 127) );
    vassert (u21 < d );
    vassert ( (v ) == ( reciprocal_2(d) ) );
    let q = u128::mul(u21.high(), v) + u21;
    /*+*/let ghost bb = B * B;
    let ghost qi = q as int;
    proof { assert(qi == ((u21 as int) / B) * v as int + u21 as int); }/*-*/
    let r1 = u21.low().wrapping_sub(q.high().wrapping_mul(d.high()));
    /*+*/proof { assert(r1 as int == ((u21 as int) % B - ((qi / B) * ((d as int) / B)) % B) % B); }/*-*/
    let t = u128::mul(d.low(), q.high());
    /*+*/proof { assert(t as int == ((d as int) % B) * (qi / B)); }/*-*/
    let mut r = u128::join(r1, u0).wrapping_sub(t).wrapping_sub(d);
    /*+*/proof { assert(r as int == ((r1 as int * B + u0 as int - t as int) % bb - d as int) % bb); }/*-*/
    let mut q1 = q.high().wrapping_add(1);
    /*+*/proof { assert(q1 as int == (qi / B + 1) % B); }
    let ghost r_0 = r as int; let ghost q1_0 = q1 as int;
    let ghost c = r_0 / B >= qi % B;/*-*/
    if r.high() >= q.low() {
        q1 = q1.wrapping_sub(1);
        r = r.wrapping_add(d);
    }
    /*+*/let ghost r_1 = r as int; let ghost q1_1 = q1 as int;
    proof {
        assert(r_1 == (if c { (r_0 + d as int) % bb } else { r_0 }));
        assert(q1_1 == (if c { (q1_0 - 1) % B } else { q1_0 }));
    }
    let ghost c2 = r_1 >= d as int;/*-*/
    if (r >= d) {
        q1 = q1.wrapping_add(1);
        r = r.wrapping_sub(d);
    }
    /*+*/proof {
        assert(r as int == (if c2 { (r_1 - d as int) % bb } else { r_1 }));
        assert(q1 as int == (if c2 { (q1_1 + 1) % B } else { q1_1 }));
        assert((q1 as int, r as int) == res_3x2(u21 as int, u0 as int, d as int, v as int)) by { reveal(res_3x2); }
        lemma_3x2_all(u21 as int, u0 as int, d as int, v as int);
    }/*-*/
    (q1, r)
}
//@ end

//@ extract src/algorithms/div/small.rs fn div_nx1_normalized
pub fn div_nx1_normalized(u: &mut [u64], d: u64) -> /*+*/(rem:/*-*/ u64/*+*/)
    requires d as int >= B / 2
    ensures
        final(u).len() == old(u).len(),
        lvr(old(u)@, 0, old(u).len() as int) == lvr(final(u)@, 0, old(u).len() as int) * d as int + rem as int,
        (rem as int) < d as int,/*-*/
{
    /*+*/proof { assert((1u64 << 63) == 0x8000_0000_0000_0000u64) by(bit_vector); assert(B / 2 == 0x8000_0000_0000_0000); }/*-*/
    vassert (d >= (1 << 63) );
    let v = reciprocal(d);
    let mut r: u64 = 0;
    /*+*/let ghost len_ = u.len() as int;
    let ghost old_s = u@;
    let ghost fin = final(u)@;/*-*/
    for u in /*+*/it:/*-*/ u.iter_mut().rev()
        /*+*/invariant
            len_ == old_s.len(), fin.len() == len_, it.seq().len() == len_,
            d as int >= B / 2, is_reciprocal(d, v),
            forall|j: int| 0 <= j < len_ ==> *(#[trigger] it.seq()[j]) == old_s[len_ - 1 - j],
            forall|j: int| 0 <= j < len_ ==> *final(#[trigger] it.seq()[j]) == fin[len_ - 1 - j],
            0 <= it.index@ <= len_,
            (r as int) < d as int,
            lvr(old_s, len_ - it.index@, len_) == lvr(fin, len_ - it.index@, len_) * d as int + r as int,/*-*/
    {
        /*+*/let ghost k = it.index@;
        let ghost i = len_ - 1 - k;
        let ghost r_in = r as int;
        let ghost u_in = *u;/*-*/
        let n = u128::join(r, *u);
        /*+*/proof {
            assert(u_in == old_s[i]);
            lemma_fundamental_div_mod_converse(n as int, B, r_in, u_in as int);
            assert(B * r_in == r_in * B) by(nonlinear_arith);
        }/*-*/
        let (q, r0) = div_2x1(n, d, v);
        *u = q;
        r = r0;
        /*+*/proof {
            assert(fin[i] == q);
            let a = lvr(old_s, i + 1, len_);
            let f = lvr(fin, i + 1, len_);
            assert(lvr(old_s, i, len_) == u_in as int + B * a);
            assert(lvr(fin, i, len_) == q as int + B * f);
            assert((u_in as int + B * a) == (q as int + B * f) * d as int + r0 as int) by(nonlinear_arith)
                requires a == f * d as int + r_in, q as int * d as int + r0 as int == r_in * B + u_in as int;
        }/*-*/
    }
    /*+*/proof { assert(final(u)@ == fin); }/*-*/
    r
}
//@ end

//@ extract src/algorithms/div/small.rs fn div_nx2_normalized
pub fn div_nx2_normalized(u: &mut [u64], d: u128) -> /*+*/(rem:/*-*/ u128/*+*/)
    requires d as int >= B * B / 2
    ensures
        final(u).len() == old(u).len(),
        lvr(old(u)@, 0, old(u).len() as int) == lvr(final(u)@, 0, old(u).len() as int) * d as int + rem as int,
        rem < d,/*-*/
{
    /*+*/proof { assert((1u128 << 127) == 0x8000_0000_0000_0000_0000_0000_0000_0000u128) by(bit_vector); assert(B * B == 0x1_0000_0000_0000_0000_0000_0000_0000_0000) by(compute_only); }/*-*/
    vassert (d >= (1 << 127) );
    let v = reciprocal_2(d);
    let mut remainder: u128 = 0;
    /*+*/let ghost len_ = u.len() as int;
    let ghost old_s = u@;
    let ghost fin = final(u)@;/*-*/
    for u in /*+*/it:/*-*/ u.iter_mut().rev()
        /*+*/invariant
            len_ == old_s.len(), fin.len() == len_, it.seq().len() == len_,
            d as int >= B * B / 2, is_reciprocal_2(d, v),
            forall|j: int| 0 <= j < len_ ==> *(#[trigger] it.seq()[j]) == old_s[len_ - 1 - j],
            forall|j: int| 0 <= j < len_ ==> *final(#[trigger] it.seq()[j]) == fin[len_ - 1 - j],
            0 <= it.index@ <= len_,
            remainder < d,
            lvr(old_s, len_ - it.index@, len_) == lvr(fin, len_ - it.index@, len_) * d as int + remainder as int,/*-*/
    {
        /*+*/let ghost k = it.index@;
        let ghost i = len_ - 1 - k;
        let ghost r_in = remainder as int;
        let ghost u_in = *u;
        proof { assert(u_in == old_s[i]); }/*-*/
        let (q, r) = div_3x2(remainder, *u, d, v);
        *u = q;
        remainder = r;
        /*+*/proof {
            assert(fin[i] == q);
            let a = lvr(old_s, i + 1, len_);
            let f = lvr(fin, i + 1, len_);
            assert(lvr(old_s, i, len_) == u_in as int + B * a);
            assert(lvr(fin, i, len_) == q as int + B * f);
            assert((u_in as int + B * a) == (q as int + B * f) * d as int + r as int) by(nonlinear_arith)
                requires a == f * d as int + r_in, q as int * d as int + r as int == r_in * B + u_in as int;
        }/*-*/
    }
    /*+*/proof { assert(final(u)@ == fin); }/*-*/
    remainder
}
//@ end

// value of the shifted number's digits at positions >= i:  floor(N * 2^s / B^i) = lvr(l, i, n) * 2^s + l[i-1] / 2^(64-s)
pub open spec fn vsh(l: Seq<u64>, i: int, n: int, s2: int, c: int) -> int {
    lvr(l, i, n) * s2 + (if i >= 1 { (l[i - 1] as int) / c } else { 0 })
}
// one step down: V_i == V_{i+1} * B + u_i  with u_i = (l[i] mod c) * s2 + l[i-1] / c   (u_0 = (l[0] mod c) * s2)
pub proof fn lemma_vsh_step(l: Seq<u64>, i: int, n: int, s2: int, c: int)
    requires 0 <= i < n <= l.len(), c * s2 == B, c >= 1, s2 >= 1
    ensures vsh(l, i, n, s2, c) == vsh(l, i + 1, n, s2, c) * B + ((l[i] as int) % c) * s2 + (if i >= 1 { (l[i - 1] as int) / c } else { 0 })
{
    let x = l[i] as int;
    lemma_fundamental_div_mod(x, c);
    assert(lvr(l, i, n) == x + B * lvr(l, i + 1, n));
    let h = lvr(l, i + 1, n);
    let t: int = if i >= 1 { (l[i - 1] as int) / c } else { 0 };
    assert((x + B * h) * s2 + t == (h * s2 + x / c) * B + (x % c) * s2 + t) by(nonlinear_arith)
        requires x == c * (x / c) + x % c, c * s2 == B;
}

//@ extract src/algorithms/div/small.rs fn div_nx1 rewrite="* ( & mut limbs $1 )" => "limbs $1" #1 rewrite="( & limbs $1 )" => "limbs $1" #3
pub fn div_nx1(limbs: &mut [u64], divisor: u64) -> /*+*/(r:/*-*/ u64/*+*/)
    requires divisor != 0, old(limbs).len() >= 1, old(limbs)@[old(limbs).len() - 1] != 0
    ensures final(limbs).len() == old(limbs).len(), r < divisor,
        lvr(old(limbs)@, 0, old(limbs).len() as int) == lvr(final(limbs)@, 0, old(limbs).len() as int) * divisor as int + r as int/*-*/
{
    vassert (divisor != 0 );
    vassert (!limbs.is_empty() );
    vassert (*limbs.last().unwrap() != 0 );
    let shift = divisor.leading_zeros();
    /*+*/proof { lemma_lz_facts(divisor); }/*-*/
    if shift == 0 {
        /*+*/proof { lemma2_to64(); assert((divisor as int) * 1 == divisor as int) by(nonlinear_arith); }/*-*/
        return div_nx1_normalized(limbs, divisor);
    }
    /*+*/let ghost d0 = divisor as int;
    let ghost s2 = pow2(shift as nat) as int;
    let ghost c = pow2((64 - shift) as nat) as int;
    let ghost n = limbs.len() as int;
    let ghost l0 = limbs@;
    proof {
        lemma_pow2_adds((64 - shift) as nat, shift as nat); lemma2_to64(); lemma_pow2_pos((64 - shift) as nat); lemma_pow2_pos(shift as nat);
        assert(c * s2 == B);
        lemma_u64_shl_is_mul(divisor, shift as u64);
    }/*-*/
    let divisor = divisor << shift;
    let reciprocal = reciprocal(divisor);
    let last = limbs [limbs.len() - 1 ];
    let mut remainder = last >> (64 - shift);
    /*+*/proof {
        lemma_u64_shr_is_div(last, (64 - shift) as u64);
        assert(remainder as int == (last as int) / c);
        lemma_shl_or_shr_u64(0, last, shift);
        assert(lvr(l0, n, n) == 0);
        assert(0 * (divisor as int) == 0) by(nonlinear_arith);
        assert(lvr(l0, n, n) * s2 == 0) by(nonlinear_arith) requires lvr(l0, n, n) == 0;
        assert(vsh(l0, n, n, s2, c) == remainder as int);
        assert(s2 <= divisor as int) by(nonlinear_arith) requires divisor as int == d0 * s2, d0 >= 1, s2 >= 1;
    }/*-*/
    for i in /*+*/iter:/*-*/ (1..limbs.len()).rev()
        /*+*/invariant
            limbs.len() == n, l0.len() == n, n >= 1, 0 < shift < 64, c * s2 == B, c >= 1, s2 >= 1,
            s2 == pow2(shift as nat), c == pow2((64 - shift) as nat),
            divisor as int == d0 * s2, divisor as int >= B / 2, is_reciprocal(divisor, reciprocal),
            iter.seq().len() == n - 1,
            forall|j: int| 0 <= j < n - iter.index@ ==> limbs@[j] == l0[j],
            (remainder as int) < divisor as int,
            vsh(l0, n - iter.index@, n, s2, c) == lvr(limbs@, n - iter.index@, n) * divisor as int + remainder as int,/*-*/
    {
        /*+*/let ghost k = n - iter.index@;          // == i + 1
        let ghost q_prev = limbs@;/*-*/
        let upper = limbs [i ];
        let lower = limbs [i - 1 ];
        let u = (upper << shift) | (lower >> (64 - shift));
        /*+*/proof {
            assert(i as int == k - 1);
            lemma_shl_or_shr_u64(upper, lower, shift);
            lemma_vsh_step(l0, i as int, n, s2, c);
        }/*-*/
        let n = u128::join(remainder, u);
        /*+*/proof { assert((n as int) / B == remainder as int) by { lemma_fundamental_div_mod_converse(n as int, B, remainder as int, u as int); assert(B * (remainder as int) == remainder as int * B) by(nonlinear_arith); } }/*-*/
        let (q, r) = div_2x1(n, divisor, reciprocal);
        limbs [i ] = q;
        /*+*/proof {
            let ii = i as int; let nn = limbs.len() as int;
            lemma_lvr_ext(q_prev, limbs@, ii + 1, nn);
            assert(lvr(limbs@, ii, nn) == q as int + B * lvr(limbs@, ii + 1, nn));
            let h = lvr(limbs@, ii + 1, nn); let dv = divisor as int; let rin = remainder as int;
            assert(vsh(l0, ii, nn, s2, c) == (q as int + B * h) * dv + r as int) by(nonlinear_arith)
                requires vsh(l0, ii, nn, s2, c) == vsh(l0, ii + 1, nn, s2, c) * B + u as int,
                    vsh(l0, ii + 1, nn, s2, c) == h * dv + rin,
                    q as int * dv + r as int == rin * B + u as int;
        }/*-*/
        remainder = r;
    }
    /*+*/let ghost q_prev = limbs@;
    let ghost rem_in = remainder as int;
    proof { assert(vsh(l0, 1, n, s2, c) == lvr(limbs@, 1, n) * divisor as int + rem_in); assert(limbs@[0] == l0[0]); }/*-*/
    let first = ( & mut limbs [0 ] );
    /*+*/proof {
        lemma_u64_shl_is_mul_mod(l0[0], shift, c, s2);
        lemma_vsh_step(l0, 0, n, s2, c);
    }
    let ghost u0 = (*first << shift) as int;/*-*/
    let n = u128::join(remainder, *first << shift);
    let (q, remainder) = div_2x1(n, divisor, reciprocal);
    *first = q;
    /*+*/proof {
        let nn = limbs.len() as int;
        lemma_lvr_ext(q_prev, limbs@, 1, nn);
        assert(lvr(limbs@, 0, nn) == q as int + B * lvr(limbs@, 1, nn));
        // N * s2 == Q * d0 * s2 + R'   ==>  R' = R * s2
        let nv = lvr(l0, 0, nn); let qv = lvr(limbs@, 0, nn); let rp = remainder as int;
        let h = lvr(limbs@, 1, nn); let dv = divisor as int;
        assert(vsh(l0, 0, nn, s2, c) == nv * s2);
        assert(nv * s2 == qv * (d0 * s2) + rp) by(nonlinear_arith)
            requires nv * s2 == vsh(l0, 1, nn, s2, c) * B + u0, vsh(l0, 1, nn, s2, c) == h * dv + rem_in,
                q as int * dv + rp == rem_in * B + u0, qv == q as int + B * h, dv == d0 * s2;
        lemma_u64_shr_is_div(remainder, shift as u64);
        lemma_exact_shift(nv, qv, d0, s2, rp);
    }/*-*/
    remainder >> shift
}
//@ end

//@ extract src/algorithms/div/small.rs fn div_nx2 rewrite="* ( & mut limbs $1 )" => "limbs $1" #1 rewrite="( & limbs $1 )" => "limbs $1" #3
pub fn div_nx2(limbs: &mut [u64], divisor: u128) -> /*+*/(r:/*-*/ u128/*+*/)
    requires divisor as int >= B, old(limbs).len() >= 1, old(limbs)@[old(limbs).len() - 1] != 0
    ensures final(limbs).len() == old(limbs).len(), r < divisor,
        lvr(old(limbs)@, 0, old(limbs).len() as int) == lvr(final(limbs)@, 0, old(limbs).len() as int) * divisor as int + r as int/*-*/
{
    /*+*/proof { assert((1u128 << 64) == 0x1_0000_0000_0000_0000u128) by(bit_vector); assert(B * B == 0x1_0000_0000_0000_0000_0000_0000_0000_0000) by(compute_only); }/*-*/
    vassert (divisor >= 1 << 64 );
    vassert (!limbs.is_empty() );
    vassert (*limbs.last().unwrap() != 0 );
    /*+*/let ghost d0 = divisor as int;
    let ghost dh = d0 / B;
    proof {
        lemma_fundamental_div_mod(d0, B);
        assert(dh >= 1) by(nonlinear_arith) requires d0 == B * dh + d0 % B, d0 % B < B, d0 >= B, B > 0;
        assert(dh < B) by(nonlinear_arith) requires d0 == B * dh + d0 % B, d0 % B >= 0, d0 < B * B, B > 0;
    }/*-*/
    let shift = divisor.high().leading_zeros();
    /*+*/proof { lemma_lz_facts(dh as u64); }/*-*/
    if shift == 0 {
        /*+*/proof {
            lemma2_to64(); assert(dh * 1 == dh) by(nonlinear_arith);
            assert(d0 >= B * B / 2) by(nonlinear_arith) requires d0 == B * dh + d0 % B, d0 % B >= 0, dh >= B / 2, B == 0x1_0000_0000_0000_0000;
        }/*-*/
        return div_nx2_normalized(limbs, divisor);
    }
    /*+*/let ghost s2 = pow2(shift as nat) as int;
    let ghost c = pow2((64 - shift) as nat) as int;
    let ghost n = limbs.len() as int;
    let ghost l0 = limbs@;
    proof {
        lemma_pow2_adds((64 - shift) as nat, shift as nat); lemma2_to64(); lemma_pow2_pos((64 - shift) as nat); lemma_pow2_pos(shift as nat);
        assert(c * s2 == B);
        // d0 * s2 < B^2 : dh * s2 < B
        assert(dh + 1 <= c) by(nonlinear_arith) requires dh * s2 < c * s2, s2 >= 1;
        assert(d0 * s2 < B * B) by(nonlinear_arith) requires d0 == B * dh + d0 % B, d0 % B <= B - 1, dh + 1 <= c, c * s2 == B, s2 >= 1, dh >= 0;
        lemma_u128_shl_is_mul(divisor, shift);
        assert(d0 * s2 >= B * B / 2) by(nonlinear_arith) requires d0 == B * dh + d0 % B, d0 % B >= 0, dh * s2 >= B / 2, s2 >= 1, B == 0x1_0000_0000_0000_0000;
    }/*-*/
    let divisor = divisor << shift;
    let reciprocal = reciprocal_2(divisor);
    let last = limbs [limbs.len() - 1 ];
    let mut remainder: u128 = u128::from(last >> (64 - shift));
    /*+*/proof {
        lemma_u64_shr_is_div(last, (64 - shift) as u64);
        assert(remainder as int == (last as int) / c);
        lemma_shl_or_shr_u64(0, last, shift);
        assert(lvr(l0, n, n) == 0);
        assert(0 * (divisor as int) == 0) by(nonlinear_arith);
        assert(lvr(l0, n, n) * s2 == 0) by(nonlinear_arith) requires lvr(l0, n, n) == 0;
        assert(vsh(l0, n, n, s2, c) == remainder as int);
        assert(s2 <= divisor as int) by(nonlinear_arith) requires divisor as int == d0 * s2, d0 >= 1, s2 >= 1;
    }/*-*/
    for i in /*+*/iter:/*-*/ (1..limbs.len()).rev()
        /*+*/invariant
            limbs.len() == n, l0.len() == n, n >= 1, 0 < shift < 64, c * s2 == B, c >= 1, s2 >= 1,
            s2 == pow2(shift as nat), c == pow2((64 - shift) as nat),
            divisor as int == d0 * s2, divisor as int >= B * B / 2, is_reciprocal_2(divisor, reciprocal),
            iter.seq().len() == n - 1,
            forall|j: int| 0 <= j < n - iter.index@ ==> limbs@[j] == l0[j],
            remainder < divisor,
            vsh(l0, n - iter.index@, n, s2, c) == lvr(limbs@, n - iter.index@, n) * divisor as int + remainder as int,/*-*/
    {
        /*+*/let ghost k = n - iter.index@;
        let ghost q_prev = limbs@;
        let ghost rin = remainder as int;/*-*/
        let upper = limbs [i ];
        let lower = limbs [i - 1 ];
        let u = (upper << shift) | (lower >> (64 - shift));
        /*+*/proof {
            assert(i as int == k - 1);
            lemma_shl_or_shr_u64(upper, lower, shift);
            lemma_vsh_step(l0, i as int, n, s2, c);
        }/*-*/
        let (q, r) = div_3x2(remainder, u, divisor, reciprocal);
        limbs [i ] = q;
        /*+*/proof {
            let ii = i as int; let nn = limbs.len() as int;
            lemma_lvr_ext(q_prev, limbs@, ii + 1, nn);
            assert(lvr(limbs@, ii, nn) == q as int + B * lvr(limbs@, ii + 1, nn));
            let h = lvr(limbs@, ii + 1, nn); let dv = divisor as int;
            assert(vsh(l0, ii, nn, s2, c) == (q as int + B * h) * dv + r as int) by(nonlinear_arith)
                requires vsh(l0, ii, nn, s2, c) == vsh(l0, ii + 1, nn, s2, c) * B + u as int,
                    vsh(l0, ii + 1, nn, s2, c) == h * dv + rin,
                    q as int * dv + r as int == rin * B + u as int;
        }/*-*/
        remainder = r;
    }
    /*+*/let ghost q_prev = limbs@;
    let ghost rem_in = remainder as int;
    proof { assert(vsh(l0, 1, n, s2, c) == lvr(limbs@, 1, n) * divisor as int + rem_in); assert(limbs@[0] == l0[0]); }/*-*/
    let first = ( & mut limbs [0 ] );
    /*+*/proof {
        lemma_u64_shl_is_mul_mod(l0[0], shift, c, s2);
        lemma_vsh_step(l0, 0, n, s2, c);
    }
    let ghost u0 = (*first << shift) as int;/*-*/
    let (q, remainder) = div_3x2(remainder, *first << shift, divisor, reciprocal);
    *first = q;
    /*+*/proof {
        let nn = limbs.len() as int;
        lemma_lvr_ext(q_prev, limbs@, 1, nn);
        assert(lvr(limbs@, 0, nn) == q as int + B * lvr(limbs@, 1, nn));
        let nv = lvr(l0, 0, nn); let qv = lvr(limbs@, 0, nn); let rp = remainder as int;
        let h = lvr(limbs@, 1, nn); let dv = divisor as int;
        assert(vsh(l0, 0, nn, s2, c) == nv * s2);
        assert(nv * s2 == qv * (d0 * s2) + rp) by(nonlinear_arith)
            requires nv * s2 == vsh(l0, 1, nn, s2, c) * B + u0, vsh(l0, 1, nn, s2, c) == h * dv + rem_in,
                q as int * dv + rp == rem_in * B + u0, qv == q as int + B * h, dv == d0 * s2;
        lemma_u128_shr_is_div(remainder, shift as u128);
        lemma_exact_shift(nv, qv, d0, s2, rp);
    }/*-*/
    remainder >> shift
}
//@ end

// (x << s) as a u64 keeps the low 64-s bits: == (x mod 2^(64-s)) * 2^s
pub proof fn lemma_u64_shl_is_mul_mod(x: u64, s: u32, c: int, s2: int)
    requires 0 < s < 64, c == pow2((64 - s) as nat), s2 == pow2(s as nat)
    ensures ((x << s) as int) == ((x as int) % c) * s2
{
    lemma_shl_or_shr_u64(x, 0, s);
    lemma_u64_shr_is_div(0, (64 - s) as u64);
    assert((0u64 >> ((64 - s) as u64)) == 0u64) by(bit_vector) requires 0 < s < 64;
    let a = x << s;
    assert((a | 0u64) == a) by(bit_vector);
    lemma_pow2_pos((64 - s) as nat);
    assert(0int / c == 0) by { lemma_div_basics(c); }
}

// N*s2 == Q*(d*s2) + R' with R' < d*s2  ==>  R'/s2 is the remainder of N by d
pub proof fn lemma_exact_shift(nv: int, qv: int, d: int, s2: int, rp: int)
    requires s2 >= 1, d >= 1, 0 <= rp < d * s2, nv * s2 == qv * (d * s2) + rp
    ensures nv == qv * d + rp / s2, rp / s2 < d, rp / s2 >= 0
{
    // rp is a multiple of s2
    assert(rp == (nv - qv * d) * s2) by(nonlinear_arith) requires nv * s2 == qv * (d * s2) + rp;
    let t = nv - qv * d;
    lemma_div_multiples_vanish(t, s2);
    assert(t * s2 / s2 == t) by { lemma_div_by_multiple(t, s2); }
    assert(t < d) by(nonlinear_arith) requires t * s2 < d * s2, s2 >= 1;
    assert(t >= 0) by(nonlinear_arith) requires t * s2 >= 0, s2 >= 1;
}

} // verus!
fn main() {}

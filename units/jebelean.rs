// unit jebelean: src/algorithms/gcd/matrix.rs — from_u64_prefix: the Lehmer step on 64-bit prefixes with Jebelean's exactness
// conditions; from_u128_prefix  (C12)
#![allow(non_snake_case)]
use vstd::prelude::*;
use vstd::arithmetic::mul::*;
use vstd::arithmetic::div_mod::*;
use vstd::arithmetic::power2::*;
use vstd::bits::*;
use vstd::std_specs::bits::*;
use vstd::std_specs::cmp::*;
verus! {
//@ include lib/base.rs
//@ include lib/shift.rs

//@ extract src/algorithms/gcd/matrix.rs struct Matrix
pub struct Matrix(pub u64, pub u64, pub u64, pub u64, pub bool);
//@ end
pub type LehmerMatrix = Matrix;

//@ include lib/lehmer_spec.rs
//@ include lib/sgcd.rs

// ---------- the mathematics of Jebelean's condition ----------
// d divides x and y  ==>  d divides s*(u*x - v*y) whenever that is non-negative
pub proof fn lemma_divides_comb(d: nat, x: nat, y: nat, u: int, v: int, s: int, r: nat)
    requires divides(d, x), divides(d, y), r as int == s * (u * x as int - v * y as int), d > 0
    ensures divides(d, r)
{
    let kx = choose|k: nat| x == mulof(d, k);
    let ky = choose|k: nat| y == mulof(d, k);
    let t = s * (u * kx as int - v * ky as int);
    assert(r as int == d as int * t) by(nonlinear_arith)
        requires r as int == s * (u * x as int - v * y as int), x as int == d as int * kx as int, y as int == d as int * ky as int, t == s * (u * kx as int - v * ky as int);
    assert(t >= 0) by(nonlinear_arith) requires r as int == d as int * t, d > 0, r >= 0;
    assert(r == mulof(d, t as nat));
}
// d divides x and y  ==>  d divides u*x + v*y  (u, v >= 0)
pub proof fn lemma_divides_sum(d: nat, x: nat, y: nat, u: nat, v: nat)
    requires divides(d, x), divides(d, y)
    ensures divides(d, u * x + v * y)
{
    let kx = choose|k: nat| x == mulof(d, k);
    let ky = choose|k: nat| y == mulof(d, k);
    assert(u * x + v * y == d * (u * kx + v * ky)) by(nonlinear_arith) requires x == d * kx, y == d * ky;
    assert(u * x + v * y == mulof(d, u * kx + v * ky));
}
// mutual divisibility of naturals is equality
pub proof fn lemma_divides_antisym(a: nat, b: nat)
    requires divides(a, b), divides(b, a)
    ensures a == b
{
    let k = choose|k: nat| b == mulof(a, k);
    let l = choose|l: nat| a == mulof(b, l);
    if a == 0 { assert(b == 0) by(nonlinear_arith) requires b == a * k, a == 0; }
    else {
        assert(a == a * (k * l)) by(nonlinear_arith) requires b == a * k, a == b * l;
        assert(k * l == 1) by(nonlinear_arith) requires a == a * (k * l), a > 0;
        assert(k == 1) by(nonlinear_arith) requires k * l == 1;
        assert(b == a) by(nonlinear_arith) requires b == a * k, k == 1;
    }
}
pub proof fn lemma_sgcd_pos(a: nat, b: nat)
    requires a > 0 || b > 0
    ensures sgcd(a, b) > 0
    decreases b
{
    if b != 0 { lemma_mod_bound(a as int, b as int); lemma_sgcd_pos(b, a % b); }
}

// u*(pa*p + ta) - v*(pb*p + tb) == (u*pa - v*pb)*p + (u*ta - v*tb)        (distributivity only)
pub proof fn lemma_comb(u: int, v: int, pa: int, pb: int, p: int, ta: int, tb: int)
    ensures u * (pa * p + ta) - v * (pb * p + tb) == (u * pa - v * pb) * p + (u * ta - v * tb)
{
    lemma_mul_is_distributive_add(u, pa * p, ta);
    lemma_mul_is_distributive_add(v, pb * p, tb);
    lemma_mul_is_associative(u, pa, p);
    lemma_mul_is_associative(v, pb, p);
    lemma_mul_is_distributive_sub_other_way(p, u * pa, v * pb);
}
// vy*(ux*a - vx*b) - vx*(uy*a - vy*b) == (ux*vy - uy*vx)*a   and   uy*(ux*a - vx*b) - ux*(uy*a - vy*b) == (ux*vy - uy*vx)*b
pub proof fn lemma_det_comb(ux: int, vx: int, uy: int, vy: int, a: int, b: int)
    ensures
        vy * (ux * a - vx * b) - vx * (uy * a - vy * b) == (ux * vy - uy * vx) * a,
        uy * (ux * a - vx * b) - ux * (uy * a - vy * b) == (ux * vy - uy * vx) * b,
{
    // first
    lemma_mul_is_distributive_sub(vy, ux * a, vx * b);
    lemma_mul_is_distributive_sub(vx, uy * a, vy * b);
    lemma_mul_is_associative(vy, ux, a); lemma_mul_is_associative(vy, vx, b);
    lemma_mul_is_associative(vx, uy, a); lemma_mul_is_associative(vx, vy, b);
    lemma_mul_is_commutative(vy, vx); lemma_mul_is_commutative(vy, ux); lemma_mul_is_commutative(vx, uy);
    lemma_mul_is_distributive_sub_other_way(a, ux * vy, uy * vx);
    // second
    lemma_mul_is_distributive_sub(uy, ux * a, vx * b);
    lemma_mul_is_distributive_sub(ux, uy * a, vy * b);
    lemma_mul_is_associative(uy, ux, a); lemma_mul_is_associative(uy, vx, b);
    lemma_mul_is_associative(ux, uy, a); lemma_mul_is_associative(ux, vy, b);
    lemma_mul_is_commutative(uy, ux);
    lemma_mul_is_distributive_sub_other_way(b, ux * vy, uy * vx);
}
// sgcd does not depend on the order of its arguments
pub proof fn lemma_sgcd_comm(a: nat, b: nat)
    requires a >= b
    ensures sgcd(b, a) == sgcd(a, b)
{
    if a != 0 {
        if b < a { lemma_small_mod(b, a); assert(sgcd(b, a) == sgcd(a, b % a)); }
        else { assert(a == b); }
    }
}

// Jebelean's condition for an EVEN first index x: (ux, vx), (uy, vy) are the cofactors of indices x and x + 1 computed from the
// prefixes (pa, pb); ax = ux*pa - vx*pb and ay = vy*pb - uy*pa the prefix remainders; p = 2^k; ta, tb < p the discarded tails.
// If ay >= uy and ax - ay >= vx + vy then the same matrix is exact on the full numbers aa = pa*p + ta, bb = pb*p + tb.
// (The odd case is this lemma with the roles of (u, a) and (v, b) exchanged.)
pub proof fn lemma_jebelean_even(p: int, pa: int, pb: int, ta: int, tb: int, ux: int, vx: int, uy: int, vy: int, ax: int, ay: int)
    requires
        p >= 1, 0 <= ta < p, 0 <= tb < p, pa >= 0, pb >= 0,
        ax == ux * pa - vx * pb, ay == vy * pb - uy * pa,
        ux * vy - uy * vx == 1,
        0 <= ux <= uy, 0 <= vx <= vy, uy >= 1, vy >= 1,
        ay >= uy, ax - ay >= vx + vy,
    ensures ({
        let aa = pa * p + ta; let bb = pb * p + tb;
        let c = ux * aa - vx * bb; let d = vy * bb - uy * aa;
        &&& 0 <= d < c
        &&& aa == vy * c + vx * d
        &&& bb == uy * c + ux * d
        &&& c <= aa && c <= bb
        &&& vy <= aa && uy <= bb
        &&& sgcd(c as nat, d as nat) == sgcd(aa as nat, bb as nat)
    })
{
    let aa = pa * p + ta; let bb = pb * p + tb;
    let c = ux * aa - vx * bb; let d = vy * bb - uy * aa;
    lemma_comb(ux, vx, pa, pb, p, ta, tb);
    lemma_comb(uy, vy, pa, pb, p, ta, tb);
    let ex = ux * ta - vx * tb; let zt = uy * ta - vy * tb;
    assert(c == ax * p + ex);
    assert(uy * aa - vy * bb == (uy * pa - vy * pb) * p + zt);
    lemma_mul_is_distributive_sub_other_way(p, 0, uy * pa - vy * pb);
    assert((0 - (uy * pa - vy * pb)) * p == 0 * p - (uy * pa - vy * pb) * p);
    assert(d == ay * p - zt);
    // tail bounds
    lemma_mul_inequality(ta, p - 1, ux); lemma_mul_is_commutative(ta, ux); lemma_mul_is_commutative(p - 1, ux); lemma_mul_nonnegative(ux, ta);
    lemma_mul_inequality(tb, p - 1, vx); lemma_mul_is_commutative(tb, vx); lemma_mul_is_commutative(p - 1, vx); lemma_mul_nonnegative(vx, tb);
    lemma_mul_inequality(ta, p - 1, uy); lemma_mul_is_commutative(ta, uy); lemma_mul_is_commutative(p - 1, uy); lemma_mul_nonnegative(uy, ta);
    lemma_mul_inequality(tb, p - 1, vy); lemma_mul_is_commutative(tb, vy); lemma_mul_is_commutative(p - 1, vy); lemma_mul_nonnegative(vy, tb);
    assert(0 <= ux * ta <= ux * (p - 1)); assert(0 <= vx * tb <= vx * (p - 1));
    assert(0 <= uy * ta <= uy * (p - 1)); assert(0 <= vy * tb <= vy * (p - 1));
    // d >= ay*p - uy*(p-1) == (ay - uy)*p + uy >= 0
    lemma_mul_is_distributive_sub_other_way(p, ay, uy);
    lemma_mul_is_distributive_sub(uy, p, 1);
    lemma_mul_nonnegative(ay - uy, p);
    assert(d >= 0);
    // c - d >= (ax - ay)*p - (vx + vy)*(p - 1) == (ax - ay - vx - vy)*p + (vx + vy) >= 1
    lemma_mul_is_distributive_sub_other_way(p, ax, ay);
    lemma_mul_is_distributive_sub_other_way(p, ax - ay, vx + vy);
    lemma_mul_is_distributive_sub(vx + vy, p, 1);
    lemma_mul_is_distributive_add_other_way(p - 1, vx, vy);
    lemma_mul_nonnegative(ax - ay - (vx + vy), p);
    assert(c - d == (ax - ay) * p + ex + zt);
    assert(c - d >= 1);
    // the inverse map
    lemma_det_comb(ux, vx, uy, vy, aa, bb);
    lemma_mul_is_distributive_sub(vx, 0, uy * aa - vy * bb);
    lemma_mul_is_distributive_sub(ux, 0, uy * aa - vy * bb);
    assert(vx * d == -(vx * (uy * aa - vy * bb)));
    assert(ux * d == -(ux * (uy * aa - vy * bb)));
    assert(aa == vy * c + vx * d);
    assert(bb == uy * c + ux * d);
    // bounds
    lemma_mul_inequality(1, c, vy); lemma_mul_is_commutative(c, vy);
    lemma_mul_inequality(1, c, uy); lemma_mul_is_commutative(c, uy);
    lemma_mul_inequality(1, vy, c); lemma_mul_inequality(1, uy, c);
    lemma_mul_nonnegative(vx, d); lemma_mul_nonnegative(ux, d);
    assert(c <= aa && c <= bb && vy <= aa && uy <= bb);
    // same gcd
    let g1 = sgcd(aa as nat, bb as nat); let g2 = sgcd(c as nat, d as nat);
    lemma_sgcd_divides(aa as nat, bb as nat); lemma_sgcd_divides(c as nat, d as nat);
    lemma_sgcd_pos(aa as nat, bb as nat); lemma_sgcd_pos(c as nat, d as nat);
    assert(1 * (ux * aa - vx * bb) == c);
    lemma_divides_comb(g1, aa as nat, bb as nat, ux, vx, 1, c as nat);
    assert(-1 * (uy * aa - vy * bb) == d);
    lemma_divides_comb(g1, aa as nat, bb as nat, uy, vy, -1, d as nat);
    lemma_sgcd_greatest(c as nat, d as nat, g1);
    lemma_divides_sum(g2, c as nat, d as nat, vy as nat, vx as nat);
    lemma_divides_sum(g2, c as nat, d as nat, uy as nat, ux as nat);
    lemma_sgcd_greatest(aa as nat, bb as nat, g2);
    lemma_divides_antisym(g1, g2);
}

// ---------- the sliding window of from_u64_prefix ----------
// Orientation (pp, qq; x, y): with even index of r2 this is (a0, a1; u, v), with odd index (a1, a0; v, u).
// r0..r3 are four consecutive remainders of the prefix pair, (x_i, y_i) their cofactors.
pub open spec fn win(pp: int, qq: int, x0: int, y0: int, x1: int, y1: int, x2: int, y2: int, x3: int, y3: int, r0: int, r1: int, r2: int, r3: int) -> bool {
    &&& r0 == x0 * pp - y0 * qq && r1 == y1 * qq - x1 * pp && r2 == x2 * pp - y2 * qq && r3 == y3 * qq - x3 * pp
    &&& x0 * y1 - x1 * y0 == 1 && x1 * y2 - x2 * y1 == -1 && x2 * y3 - x3 * y2 == 1
    &&& x0 >= 0 && y0 >= 0 && x1 >= 0 && y1 >= 0
    &&& x2 >= x0 + x1 && y2 >= y0 + y1 && x3 >= x1 + x2 && y3 >= y1 + y2
    &&& x2 >= 1 && y2 >= 1
    &&& r0 >= r1 + r2 && r1 >= r2 + r3 && r1 > r2 && r2 > r3 && r3 >= 0
}

// one Euclid step of the window: q = r2 / r3, rn = r2 - q*r3; the new window is in the exchanged orientation
pub proof fn lemma_win_step(pp: int, qq: int, x0: int, y0: int, x1: int, y1: int, x2: int, y2: int, x3: int, y3: int, r0: int, r1: int, r2: int, r3: int, q: int, rn: int)
    requires win(pp, qq, x0, y0, x1, y1, x2, y2, x3, y3, r0, r1, r2, r3), r3 >= 1, q >= 1, rn == r2 - q * r3, 0 <= rn < r3, pp >= 0, qq >= 0
    ensures ({
        let xn = x2 + q * x3; let yn = y2 + q * y3;
        &&& win(qq, pp, y1, x1, y2, x2, y3, x3, yn, xn, r1, r2, r3, rn)
        &&& yn * r3 <= pp && xn * r3 <= qq
    })
{
    let xn = x2 + q * x3; let yn = y2 + q * y3;
    // rn == xn*pp - yn*qq
    lemma_mul_is_distributive_add_other_way(pp, x2, q * x3);
    lemma_mul_is_distributive_add_other_way(qq, y2, q * y3);
    lemma_mul_is_associative(q, x3, pp); lemma_mul_is_associative(q, y3, qq);
    lemma_mul_is_distributive_sub(q, y3 * qq, x3 * pp);
    assert(rn == xn * pp - yn * qq);
    // new determinant: y3*xn - yn*x3 == 1   (== -(x3*yn - xn*y3), and x3*yn - xn*y3 == x3*y2 - x2*y3 == -1)
    lemma_mul_is_distributive_add(x3, y2, q * y3);
    lemma_mul_is_distributive_add(y3, x2, q * x3);
    lemma_mul_is_associative(x3, q, y3); lemma_mul_is_associative(y3, q, x3);
    lemma_mul_is_commutative(x3, q); lemma_mul_is_commutative(y3, q);
    lemma_mul_is_associative(q, x3, y3); lemma_mul_is_associative(q, y3, x3); lemma_mul_is_commutative(x3, y3);
    lemma_mul_is_commutative(x3, y2); lemma_mul_is_commutative(y3, x2);
    lemma_mul_is_commutative(y3, xn); lemma_mul_is_commutative(x3, yn);
    assert(y3 * xn - yn * x3 == 1);
    // the exchanged orientation: r1 == y1*qq - x1*pp (as "x0' * pp' - y0' * qq'" with pp' = qq), etc.
    lemma_mul_is_commutative(x0, y1); lemma_mul_is_commutative(x1, y0);
    lemma_mul_is_commutative(x1, y2); lemma_mul_is_commutative(x2, y1);
    lemma_mul_is_commutative(x2, y3);
    // sums
    lemma_mul_nonnegative(q, x3); lemma_mul_nonnegative(q, y3);
    lemma_mul_inequality(1, q, x3); lemma_mul_inequality(1, q, y3);
    assert(xn >= x2 + x3 && yn >= y2 + y3);
    lemma_mul_inequality(1, q, r3);
    assert(r2 >= r3 + rn);
    assert(win(qq, pp, y1, x1, y2, x2, y3, x3, yn, xn, r1, r2, r3, rn));
    // inverse identities:  yn*r3 + y3*rn == pp,  xn*r3 + x3*rn == qq
    lemma_det_comb(y3, x3, yn, xn, qq, pp);
    // r3 == y3*qq - x3*pp, rn == xn*pp - yn*qq == -(yn*qq - xn*pp)
    lemma_mul_is_distributive_sub(y3, 0, yn * qq - xn * pp);
    lemma_mul_is_distributive_sub(x3, 0, yn * qq - xn * pp);
    assert(y3 * rn == -(y3 * (yn * qq - xn * pp)));
    assert(x3 * rn == -(x3 * (yn * qq - xn * pp)));
    assert(xn * r3 + x3 * rn == qq);
    assert(yn * r3 + y3 * rn == pp);
    lemma_mul_nonnegative(x3, rn); lemma_mul_nonnegative(y3, rn);
}

// ---------- from the window to the Lehmer contract on the full numbers ----------
// sign pattern `true`:  ax = ux*a0 - vx*a1,  ay = vy*a1 - uy*a0
pub proof fn lemma_opt_true(a0: int, a1: int, aa: int, bb: int, k: nat, ux: u64, vx: u64, uy: u64, vy: u64, ax: int, ay: int)
    requires is_prefix(a0, a1, aa, bb, k),
        ax == ux as int * a0 - vx as int * a1, ay == vy as int * a1 - uy as int * a0,
        ux as int * vy as int - uy as int * vx as int == 1,
        ux <= uy, vx <= vy, uy >= 1, vy >= 1,
        ay >= uy as int, ax - ay >= vx as int + vy as int,
    ensures lehmer_ok(Matrix(ux, vx, uy, vy, true), aa, bb)
{
    let p = pow2(k) as int;
    lemma_pow2_pos(k);
    lemma_fundamental_div_mod(aa, p); lemma_fundamental_div_mod(bb, p);
    lemma_mod_bound(aa, p); lemma_mod_bound(bb, p);
    let ta = aa % p; let tb = bb % p;
    lemma_div_pos_is_pos(aa, p); lemma_div_pos_is_pos(bb, p);
    lemma_mul_is_commutative(p, a0); lemma_mul_is_commutative(p, a1);
    lemma_jebelean_even(p, a0, a1, ta, tb, ux as int, vx as int, uy as int, vy as int, ax, ay);
    assert(aa == a0 * p + ta && bb == a1 * p + tb);
    lemma_mul_is_commutative(vx as int, uy as int);
    let m = Matrix(ux, vx, uy, vy, true);
    let (c, d) = maps(m, aa, bb);
    assert(c == ux as int * aa - vx as int * bb);
    assert(d == vy as int * bb - uy as int * aa);
    assert(0 <= d <= c <= aa);
    assert(d < bb);
    assert(sgcd(c as nat, d as nat) == sgcd(aa as nat, bb as nat));
    assert(m.0 as int * m.3 as int - m.1 as int * m.2 as int == 1);
    assert(m.0 as int <= aa && m.1 as int <= aa && m.2 as int <= aa && m.3 as int <= aa);
}

// sign pattern `false`:  ax = vx*a1 - ux*a0,  ay = uy*a0 - vy*a1     (the even lemma with the roles of (u, a0) and (v, a1) exchanged)
pub proof fn lemma_opt_false(a0: int, a1: int, aa: int, bb: int, k: nat, ux: u64, vx: u64, uy: u64, vy: u64, ax: int, ay: int)
    requires is_prefix(a0, a1, aa, bb, k),
        ax == vx as int * a1 - ux as int * a0, ay == uy as int * a0 - vy as int * a1,
        ux as int * vy as int - uy as int * vx as int == -1,
        ux <= uy, vx <= vy, uy >= 1, vy >= 1,
        ay >= vy as int, ax - ay >= ux as int + uy as int,
    ensures lehmer_ok(Matrix(ux, vx, uy, vy, false), aa, bb)
{
    let p = pow2(k) as int;
    lemma_pow2_pos(k);
    lemma_fundamental_div_mod(aa, p); lemma_fundamental_div_mod(bb, p);
    lemma_mod_bound(aa, p); lemma_mod_bound(bb, p);
    let ta = aa % p; let tb = bb % p;
    lemma_div_pos_is_pos(aa, p); lemma_div_pos_is_pos(bb, p);
    lemma_mul_is_commutative(p, a0); lemma_mul_is_commutative(p, a1);
    lemma_mul_is_commutative(ux as int, vy as int); lemma_mul_is_commutative(uy as int, vx as int);
    lemma_jebelean_even(p, a1, a0, tb, ta, vx as int, ux as int, vy as int, uy as int, ax, ay);
    assert(aa == a0 * p + ta && bb == a1 * p + tb);
    lemma_sgcd_comm(aa as nat, bb as nat);
}

// ---------- machine level: two 32-bit cofactors packed in one word ----------
pub open spec fn L32() -> int { 0x1_0000_0000 }
pub open spec fn packed(k: u64, u: int, v: int) -> bool { k as int == u * L32() + v && 0 <= u < L32() && 0 <= v < L32() }

pub proof fn lemma_unpack(k: u64, u: int, v: int)
    requires packed(k, u, v)
    ensures (k >> 32) as int == u, (k % 0x1_0000_0000u64) as int == v
{
    lemma_u64_shr_is_div(k, 32); lemma2_to64();
    assert(pow2(32) == 0x1_0000_0000);
    lemma_mul_is_commutative(u, L32());
    lemma_fundamental_div_mod_converse(k as int, L32(), u, v);
}
// k1 + q*k2 packs (u1 + q*u2, v1 + q*v2) when both stay below 2^32 (no carry between the halves, no word overflow)
pub proof fn lemma_pack_step(k1: u64, k2: u64, q: u64, u1: int, v1: int, u2: int, v2: int)
    requires packed(k1, u1, v1), packed(k2, u2, v2), u1 + q as int * u2 < L32(), v1 + q as int * v2 < L32()
    ensures q as int * k2 as int <= u64::MAX, k1 as int + q as int * k2 as int <= u64::MAX,
        packed((k1 as int + q as int * k2 as int) as u64, u1 + q as int * u2, v1 + q as int * v2)
{
    let qi = q as int;
    lemma_mul_is_distributive_add(qi, u2 * L32(), v2);
    lemma_mul_is_associative(qi, u2, L32());
    lemma_mul_is_distributive_add_other_way(L32(), u1, qi * u2);
    lemma_mul_nonnegative(qi, u2); lemma_mul_nonnegative(qi, v2);
    let un = u1 + qi * u2; let vn = v1 + qi * v2;
    assert(k1 as int + qi * k2 as int == un * L32() + vn);
    lemma_mul_inequality(un, L32() - 1, L32()); lemma_mul_is_commutative(L32() - 1, L32());
    assert(un * L32() + vn <= (L32() - 1) * L32() + (L32() - 1));
    assert((L32() - 1) * L32() + (L32() - 1) == 0xffff_ffff_ffff_ffff) by(compute_only);
    lemma_mul_nonnegative(qi * u2, L32());
    assert(qi * k2 as int <= un * L32() + vn);
}

// the state of from_u64_prefix in both orientations
pub open spec fn state(even: bool, a0: int, a1o: int, u0: int, v0: int, u1: int, v1: int, u2: int, v2: int, u3: int, v3: int, r0: int, r1: int, r2: int, r3: int) -> bool {
    &&& even ==> win(a0, a1o, u0, v0, u1, v1, u2, v2, u3, v3, r0, r1, r2, r3)
    &&& !even ==> win(a1o, a0, v0, u0, v1, u1, v2, u2, v3, u3, r0, r1, r2, r3)
    &&& (even && u0 == 1 && v0 == 0 && u1 == 0 && v1 == 1) || (u0 <= u1 && v0 <= v1 && u1 >= 1 && v1 >= 1)
    &&& u2 < L32() && v2 < L32() && u3 < L32() && v3 < L32()
}

// (x * 2^s) / 2^64 == x / 2^(64 - s)      (ps = 2^s, pc = 2^(64 - s), ps * pc = 2^64)
pub proof fn lemma_prefix_shift(x: int, ps: int, pc: int)
    requires x >= 0, ps >= 1, pc >= 1, ps * pc == B
    ensures (x * ps) / B == x / pc
{
    lemma_mul_is_commutative(x, ps);
    lemma_div_denominator(ps * x, ps, pc);
    lemma_div_multiples_vanish(x, ps);
    assert((ps * x) / ps == x) by { lemma_mul_is_commutative(ps, x); };
}
// ASSUMED (label A): u128::leading_zeros of a non-zero value normalises it (cross-checked full-domain by Kani core_specs)
pub assume_specification [u128::leading_zeros] (x: u128) -> (r: u32)
    ensures r == u128_lz_spec(x);
pub uninterp spec fn u128_lz_spec(x: u128) -> u32;
#[verifier::external_body]
pub proof fn lemma_u128_lz(x: u128)
    requires x >= 1
    ensures u128_lz_spec(x) < 128,
        (x as int) * pow2(u128_lz_spec(x) as nat) < 0x1_0000_0000_0000_0000_0000_0000_0000_0000,
        (x as int) * pow2(u128_lz_spec(x) as nat) >= 0x8000_0000_0000_0000_0000_0000_0000_0000,
        x >= 0x1_0000_0000_0000_0000u128 ==> u128_lz_spec(x) <= 63,
{}
//@ include lib/lehmer.rs

impl Matrix {
//@ extract src/algorithms/gcd/matrix.rs const IDENTITY
    pub fn IDENTITY ( ) -> /*+*/(r:/*-*/ Self/*+*/)
        ensures is_identity(r), r == Matrix(1, 0, 0, 1, true)/*-*/
    { Self(1, 0, 0, 1, true) }
//@ end

//@ extract src/algorithms/gcd/matrix.rs fn from_u64_prefix consts=IDENTITY cprefix=Matrix rewrite="const LIMIT : u64 = 1_u64 << 32 ;" => "let LIMIT: u64 = 1_u64 << 32;" #1
    pub fn from_u64_prefix(a0: u64, a1: u64) -> /*+*/(m:/*-*/ Self/*+*/)
        requires a0 >= 0x8000_0000_0000_0000, a0 >= a1
        ensures forall|aa: int, bb: int, k: nat| is_prefix(a0 as int, a1 as int, aa, bb, k) ==> is_identity(m) || lehmer_ok(m, aa, bb)/*-*/
    { let mut a1 = a1 ;
        /*+*/let ghost A0 = a0 as int; let ghost A1 = a1 as int;/*-*/
        let LIMIT: u64 = 1_u64 << 32;
        /*+*/proof {
            assert(1u64 << 32 == 0x1_0000_0000u64) by(bit_vector);
            assert(1u64 << 63 == 0x8000_0000_0000_0000u64) by(bit_vector);
        }/*-*/
        vassert (a0 >= 1_u64 << 63 );
        vassert (a0 >= a1 );
        let mut k0 = 1_u64 << 32;
        let mut k1 = 1_u64;
        let mut even = true;
        if a1 < LIMIT {
            return Matrix::IDENTITY();
        }
        let q = a0 / a1;
        /*+*/let ghost q1 = q as int;
        proof {
            lemma_fundamental_div_mod(A0, A1); lemma_mod_bound(A0, A1);
            assert(q1 >= 1 && q1 * A1 <= A0 && A0 - q1 * A1 == A0 % A1) by(nonlinear_arith)
                requires A0 == A1 * q1 + A0 % A1, 0 <= A0 % A1 < A1, A0 >= A1, A1 >= 1, q1 >= 0;
            // q1 < 2^32 because a1 >= 2^32 and a0 < 2^64
            assert(q1 < L32()) by(nonlinear_arith) requires q1 * A1 <= A0, A0 < 0x1_0000_0000_0000_0000, A1 >= 0x1_0000_0000, q1 >= 0;
            assert(packed(k0, 1, 0)) by { assert(1 * L32() + 0 == L32()); }
            assert(packed(k1, 0, 1)) by { assert(0 * L32() + 1 == 1); }
            assert(1 + q1 * 0 == 1 && 0 + q1 * 1 == q1) by(nonlinear_arith);
            lemma_pack_step(k0, k1, q, 1, 0, 0, 1);
        }/*-*/
        let mut a2 = a0 - q * a1;
        let mut k2 = k0 + q * k1;
        if a2 < LIMIT {
            let u2 = k2 >> 32;
            let v2 = k2 % LIMIT;
            /*+*/proof { lemma_unpack(k2, 1, q1); }/*-*/
            if a2 >= v2 && a1 - a2 >= u2 {
                /*+*/proof {
                    assert forall|aa: int, bb: int, k: nat| is_prefix(A0, A1, aa, bb, k) implies lehmer_ok(Matrix(0, 1, u2, v2, false), aa, bb) by {
                        assert(1 * A1 - 0 * A0 == A1 && 1 * A0 - q1 * A1 == A0 - q1 * A1 && 0 * q1 - 1 * 1 == -1) by(nonlinear_arith);
                        lemma_opt_false(A0, A1, aa, bb, k, 0, 1, u2, v2, A1, a2 as int);
                    }
                }/*-*/
                return Matrix(0, 1, u2, v2, false);
            } else {
                return Matrix::IDENTITY();
            }
        }
        let q = a1 / a2;
        /*+*/let ghost q2 = q as int; let ghost A2 = a2 as int;
        proof {
            lemma_fundamental_div_mod(A1, A2); lemma_mod_bound(A1, A2);
            assert(q2 >= 1 && q2 * A2 <= A1 && A1 - q2 * A2 == A1 % A2) by(nonlinear_arith)
                requires A1 == A2 * q2 + A1 % A2, 0 <= A1 % A2 < A2, A1 > A2, A2 >= 1, q2 >= 0;
            // cofactors of index 3: (q2, 1 + q1*q2); both below 2^32 because (1 + q1*q2)*a2 <= a0 and q2*a2 <= a1
            let v3 = 1 + q2 * q1;
            assert(v3 * A2 <= A0) by(nonlinear_arith) requires v3 == 1 + q2 * q1, q2 * A2 <= A1, A2 == A0 - q1 * A1, q1 >= 1, A1 >= 0, A2 >= 0;
            assert(v3 < L32()) by(nonlinear_arith) requires v3 * A2 <= A0, A0 < 0x1_0000_0000_0000_0000, A2 >= 0x1_0000_0000, v3 >= 0;
            assert(q2 < L32()) by(nonlinear_arith) requires q2 * A2 <= A1, A1 < 0x1_0000_0000_0000_0000, A2 >= 0x1_0000_0000, q2 >= 0;
            assert(0 + q2 * 1 == q2 && 1 + q2 * q1 == v3) by(nonlinear_arith) requires v3 == 1 + q2 * q1;
            lemma_pack_step(k1, k2, q, 0, 1, 1, q1);
        }/*-*/
        let mut a3 = a1 - q * a2;
        let mut k3 = k1 + q * k2;
        // ghost cofactors and the remainder that has left the window
        /*+*/let ghost mut u0: int = 1; let ghost mut v0: int = 0; let ghost mut u1: int = 0; let ghost mut v1: int = 1;
        let ghost mut u2: int = 1; let ghost mut v2: int = q1; let ghost mut u3: int = q2; let ghost mut v3: int = 1 + q2 * q1;
        let ghost mut aprev: int = A0;
        let ghost mut ev: bool = true;
        proof {
            let A3 = a3 as int;
            assert(A0 == 1 * A0 - 0 * A1 && A1 == 1 * A1 - 0 * A0 && A2 == 1 * A0 - q1 * A1) by(nonlinear_arith) requires A2 == A0 - q1 * A1;
            assert(A3 == v3 * A1 - q2 * A0) by(nonlinear_arith) requires A3 == A1 - q2 * A2, A2 == A0 - q1 * A1, v3 == 1 + q2 * q1;
            assert(1 * 1 - 0 * 0 == 1 && 0 * q1 - 1 * 1 == -1 && 1 * v3 - q2 * q1 == 1) by(nonlinear_arith) requires v3 == 1 + q2 * q1;
            assert(v3 >= 1 + q1) by(nonlinear_arith) requires v3 == 1 + q2 * q1, q2 >= 1, q1 >= 1;
            assert(A0 >= A1 + A2) by(nonlinear_arith) requires A2 == A0 - q1 * A1, q1 >= 1, A1 >= 0;
            assert(A1 >= A2 + A3) by(nonlinear_arith) requires A3 == A1 - q2 * A2, q2 >= 1, A2 >= 0;
            assert(win(A0, A1, u0, v0, u1, v1, u2, v2, u3, v3, aprev, A1, A2, A3));
        }/*-*/
        while a3 >= LIMIT
            /*+*/invariant_except_break even,
            invariant
                state(ev, A0, A1, u0, v0, u1, v1, u2, v2, u3, v3, aprev, a1 as int, a2 as int, a3 as int), ev == even,
                packed(k0, u0, v0), packed(k1, u1, v1), packed(k2, u2, v2), packed(k3, u3, v3),
                a2 >= LIMIT, LIMIT == 0x1_0000_0000, A0 == a0, A0 >= A1, A1 >= 0,
            ensures a3 < LIMIT,
            decreases a3/*-*/
        {
            /*+*/let ghost w_r1 = a1 as int; let ghost w_r2 = a2 as int; let ghost w_r3 = a3 as int;/*-*/
            a1 = a2;
            a2 = a3;
            a3 = a1;
            k0 = k1;
            k1 = k2;
            k2 = k3;
            k3 = k1;
            vassert (a2 < a3 );
            vassert (a2 > 0 );
            let q = a3 / a2;
            /*+*/let ghost qi = q as int;
            proof {
                lemma_fundamental_div_mod(w_r2, w_r3); lemma_mod_bound(w_r2, w_r3);
                assert(qi >= 1 && w_r2 - qi * w_r3 == w_r2 % w_r3 && qi * w_r3 <= w_r2) by(nonlinear_arith)
                    requires w_r2 == w_r3 * qi + w_r2 % w_r3, 0 <= w_r2 % w_r3 < w_r3, w_r2 > w_r3, w_r3 >= 1, qi >= 0;
                lemma_win_step(A0, A1, u0, v0, u1, v1, u2, v2, u3, v3, aprev, w_r1, w_r2, w_r3, qi, w_r2 - qi * w_r3);
                // the new cofactors stay below 2^32: xn*r3 <= A1 < 2^64, yn*r3 <= A0 < 2^64, r3 >= 2^32
                let un = u2 + qi * u3; let vn = v2 + qi * v3;
                lemma_mul_nonnegative(qi, u3); lemma_mul_nonnegative(qi, v3);
                assert(un < L32()) by(nonlinear_arith) requires un * w_r3 <= A1, A1 < 0x1_0000_0000_0000_0000, w_r3 >= 0x1_0000_0000, un >= 0;
                assert(vn < L32()) by(nonlinear_arith) requires vn * w_r3 <= A0, A0 < 0x1_0000_0000_0000_0000, w_r3 >= 0x1_0000_0000, vn >= 0;
                lemma_pack_step(k3, k2, q, u2, v2, u3, v3);
            }/*-*/
            a3 -= q * a2;
            k3 += q * k2;
            /*+*/proof {
                let un = u2 + qi * u3; let vn = v2 + qi * v3;
                aprev = w_r1;
                u0 = u1; v0 = v1; u1 = u2; v1 = v2; u2 = u3; v2 = v3; u3 = un; v3 = vn;
                ev = false;
            }/*-*/
            if a3 < LIMIT {
                even = false;
                break;
            }
            /*+*/let ghost x_r1 = a1 as int; let ghost x_r2 = a2 as int; let ghost x_r3 = a3 as int;/*-*/
            a1 = a2;
            a2 = a3;
            a3 = a1;
            k0 = k1;
            k1 = k2;
            k2 = k3;
            k3 = k1;
            vassert (a2 < a3 );
            vassert (a2 > 0 );
            let q = a3 / a2;
            /*+*/let ghost qj = q as int;
            proof {
                lemma_fundamental_div_mod(x_r2, x_r3); lemma_mod_bound(x_r2, x_r3);
                assert(qj >= 1 && x_r2 - qj * x_r3 == x_r2 % x_r3 && qj * x_r3 <= x_r2) by(nonlinear_arith)
                    requires x_r2 == x_r3 * qj + x_r2 % x_r3, 0 <= x_r2 % x_r3 < x_r3, x_r2 > x_r3, x_r3 >= 1, qj >= 0;
                lemma_win_step(A1, A0, v0, u0, v1, u1, v2, u2, v3, u3, aprev, x_r1, x_r2, x_r3, qj, x_r2 - qj * x_r3);
                let un = u2 + qj * u3; let vn = v2 + qj * v3;
                lemma_mul_nonnegative(qj, u3); lemma_mul_nonnegative(qj, v3);
                assert(vn < L32()) by(nonlinear_arith) requires vn * x_r3 <= A0, A0 < 0x1_0000_0000_0000_0000, x_r3 >= 0x1_0000_0000, vn >= 0;
                assert(un < L32()) by(nonlinear_arith) requires un * x_r3 <= A1, A1 < 0x1_0000_0000_0000_0000, x_r3 >= 0x1_0000_0000, un >= 0;
                lemma_pack_step(k3, k2, q, u2, v2, u3, v3);
            }/*-*/
            a3 -= q * a2;
            k3 += q * k2;
            /*+*/proof {
                let un = u2 + qj * u3; let vn = v2 + qj * v3;
                aprev = x_r1;
                u0 = u1; v0 = v1; u1 = u2; v1 = v2; u2 = u3; v2 = v3; u3 = un; v3 = vn;
                ev = true;
            }/*-*/
        }
        /*+*/let ghost g = (u0, v0, u1, v1, u2, v2, u3, v3);/*-*/
        let u0 = k0 >> 32;
        let u1 = k1 >> 32;
        let u2 = k2 >> 32;
        let u3 = k3 >> 32;
        let v0 = k0 % LIMIT;
        let v1 = k1 % LIMIT;
        let v2 = k2 % LIMIT;
        let v3 = k3 % LIMIT;
        /*+*/proof {
            lemma_unpack(k0, g.0, g.1); lemma_unpack(k1, g.2, g.3); lemma_unpack(k2, g.4, g.5); lemma_unpack(k3, g.6, g.7);
        }/*-*/
        vassert (a2 >= LIMIT );
        vassert (a3 < LIMIT );
        /*+*/let ghost r1 = a1 as int; let ghost r2 = a2 as int; let ghost r3 = a3 as int;/*-*/
        if even {
            vassert (a2 >= v2 );
            if a1 - a2 >= u2 + u1 {
                if a3 >= u3 && a2 - a3 >= v3 + v2 {
                    /*+*/proof {
                        assert forall|aa: int, bb: int, k: nat| is_prefix(A0, A1, aa, bb, k) implies lehmer_ok(Matrix(u2, v2, u3, v3, true), aa, bb) by {
                            lemma_opt_true(A0, A1, aa, bb, k, u2, v2, u3, v3, r2, r3);
                        }
                    }/*-*/
                    Matrix(u2, v2, u3, v3, true)
                } else {
                    /*+*/proof {
                        assert forall|aa: int, bb: int, k: nat| is_prefix(A0, A1, aa, bb, k) implies lehmer_ok(Matrix(u1, v1, u2, v2, false), aa, bb) by {
                            lemma_opt_false(A0, A1, aa, bb, k, u1, v1, u2, v2, r1, r2);
                        }
                    }/*-*/
                    Matrix(u1, v1, u2, v2, false)
                }
            } else {
                /*+*/proof {
                    if !(u0 == 1 && v0 == 0 && u1 == 0 && v1 == 1) {
                        assert forall|aa: int, bb: int, k: nat| is_prefix(A0, A1, aa, bb, k) implies lehmer_ok(Matrix(u0, v0, u1, v1, true), aa, bb) by {
                            lemma_opt_true(A0, A1, aa, bb, k, u0, v0, u1, v1, aprev, r1);
                        }
                    }
                }/*-*/
                Matrix(u0, v0, u1, v1, true)
            }
        } else {
            /*+*/proof {
                // the determinants in the exchanged orientation, restated for (u, v)
                lemma_mul_is_commutative(g.1, g.2); lemma_mul_is_commutative(g.3, g.0);
                lemma_mul_is_commutative(g.3, g.4); lemma_mul_is_commutative(g.5, g.2);
                lemma_mul_is_commutative(g.5, g.6); lemma_mul_is_commutative(g.7, g.4);
            }/*-*/
            vassert (a2 >= u2 );
            if a1 - a2 >= v2 + v1 {
                if a3 >= v3 && a2 - a3 >= u3 + u2 {
                    /*+*/proof {
                        assert forall|aa: int, bb: int, k: nat| is_prefix(A0, A1, aa, bb, k) implies lehmer_ok(Matrix(u2, v2, u3, v3, false), aa, bb) by {
                            lemma_opt_false(A0, A1, aa, bb, k, u2, v2, u3, v3, r2, r3);
                        }
                    }/*-*/
                    Matrix(u2, v2, u3, v3, false)
                } else {
                    /*+*/proof {
                        assert forall|aa: int, bb: int, k: nat| is_prefix(A0, A1, aa, bb, k) implies lehmer_ok(Matrix(u1, v1, u2, v2, true), aa, bb) by {
                            lemma_opt_true(A0, A1, aa, bb, k, u1, v1, u2, v2, r1, r2);
                        }
                    }/*-*/
                    Matrix(u1, v1, u2, v2, true)
                }
            } else {
                /*+*/proof {
                    assert forall|aa: int, bb: int, k: nat| is_prefix(A0, A1, aa, bb, k) implies lehmer_ok(Matrix(u0, v0, u1, v1, false), aa, bb) by {
                        lemma_opt_false(A0, A1, aa, bb, k, u0, v0, u1, v1, aprev, r1);
                    }
                }/*-*/
                Matrix(u0, v0, u1, v1, false)
            }
        }
    }
//@ end
//@ extract src/algorithms/gcd/matrix.rs fn from_u128_prefix consts=IDENTITY cprefix=Matrix
    pub fn from_u128_prefix(r0: u128, r1: u128) -> /*+*/(m:/*-*/ Self/*+*/)
        requires r0 >= r1, r0 >= 0x1_0000_0000_0000_0000      // `from` calls it for operands of more than 64 bits only
        ensures forall|aa: int, bb: int, k: nat| is_prefix(r0 as int, r1 as int, aa, bb, k) ==> is_identity(m) || lehmer_ok(m, aa, bb)/*-*/
    {
        vassert (r0 >= r1 );
        let s = r0.leading_zeros();
        /*+*/let ghost si = s as nat; let ghost ps = pow2(si) as int;
        let ghost R0 = r0 as int; let ghost R1 = r1 as int;
        proof {
            lemma_u128_lz(r0);
            lemma_pow2_pos(si);
            assert(R1 * ps <= R0 * ps) by(nonlinear_arith) requires R1 <= R0, ps >= 0;
            lemma_u128_shl_is_mul(r0, s); lemma_u128_shl_is_mul(r1, s);
            lemma2_to64(); lemma_pow2_64();
        }/*-*/
        let r0s = r0 << s;
        let r1s = r1 << s;
        /*+*/let ghost a0 = (r0s >> 64) as u64; let ghost a1 = (r1s >> 64) as u64;
        proof {
            // the two words handed on are the prefixes of (r0, r1) with 64 - s bits cut off
            lemma_u128_shr_is_div(r0s, 64); lemma_u128_shr_is_div(r1s, 64);
            assert((r0s >> 64) < 0x1_0000_0000_0000_0000u128 && (r1s >> 64) < 0x1_0000_0000_0000_0000u128) by(bit_vector);
            let c = (64 - si) as nat; let pc = pow2(c) as int;
            assert(si <= 63) by { if si >= 64 { lemma_pow2_strictly_increases(63, si); } };
            lemma_pow2_adds(si, c); lemma_pow2_pos(c);
            lemma_prefix_shift(R0, ps, pc); lemma_prefix_shift(R1, ps, pc);
            assert(a0 as int == R0 / pc && a1 as int == R1 / pc);
            // top bit set
            assert(a0 as int >= 0x8000_0000_0000_0000) by {
                lemma_div_is_ordered(0x8000_0000_0000_0000_0000_0000_0000_0000, R0 * ps, B);
                assert(0x8000_0000_0000_0000_0000_0000_0000_0000int / B == 0x8000_0000_0000_0000) by(compute_only);
            };
            lemma_div_is_ordered(R1 * ps, R0 * ps, B);
        }/*-*/
        let q = Self::from_u64_prefix((r0s >> 64) as u64, (r1s >> 64) as u64);
        /*+*/proof {
            let c = (64 - si) as nat; let pc = pow2(c) as int;
            assert forall|aa: int, bb: int, k: nat| is_prefix(R0, R1, aa, bb, k) implies is_identity(q) || lehmer_ok(q, aa, bb) by {
                // prefixes compose: (aa / 2^k) / 2^c == aa / 2^(k + c)
                lemma_pow2_pos(k); lemma_pow2_pos(c); lemma_pow2_adds(k, c);
                lemma_div_denominator(aa, pow2(k) as int, pc);
                lemma_div_denominator(bb, pow2(k) as int, pc);
                assert(is_prefix(a0 as int, a1 as int, aa, bb, k + c));
            }
        }/*-*/
        if q == Matrix::IDENTITY() {
            return q;
        }
        q
    }
//@ end
}

} // verus!
fn main() {}

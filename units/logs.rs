// unit logs: src/log.rs — log, checked_log, log2, checked_log2 against floor(log_base(value)) for all widths, relative to a ONE-SIDED
// assumption on the floating-point estimate (estimate <= floor(log) + 1); the two correction loops make the result exact  (C13)
#![allow(non_snake_case)]
use vstd::prelude::*;
use vstd::arithmetic::power::*;
use vstd::arithmetic::power2::*;
use vstd::arithmetic::mul::*;
use vstd::arithmetic::div_mod::*;
use vstd::bits::*;
use vstd::std_specs::cmp::*;
use vstd::std_specs::ops::*;
verus! {
//@ include lib/base.rs

//@ extract src/lib.rs struct Uint
pub struct Uint<const BITS: usize, const LIMBS: usize> { pub
    limbs: [u64; LIMBS],
}
//@ end

//@ include lib/uint_spec.rs
//@ include lib/uint_ops.rs

//@ extract src/from.rs enum ToUintError
pub enum ToUintError<T> {
    ValueTooLarge(usize, T),
    ValueNegative(usize, T),
    NotANumber(usize),
}
//@ end
//@ include lib/conv_spec.rs

// r = floor(log_b(v))
pub open spec fn is_floor_log(v: int, b: int, r: nat) -> bool { pow(b, r) <= v < pow(b, r + 1) }

pub proof fn lemma_pow_ge_pow2(b: int, e: nat)
    requires b >= 2
    ensures pow(b, e) >= pow2(e), pow(b, e) >= 1
    decreases e
{
    reveal(pow);
    lemma2_to64();
    lemma_pow2_pos(e);
    if e > 0 {
        lemma_pow_ge_pow2(b, (e - 1) as nat);
        lemma_pow2_unfold(e);
        assert(b * pow(b, (e - 1) as nat) >= 2 * pow2((e - 1) as nat)) by(nonlinear_arith)
            requires b >= 2, pow(b, (e - 1) as nat) >= pow2((e - 1) as nat), pow2((e - 1) as nat) >= 0;
    }
}
pub proof fn lemma_lt_pow2(n: nat)
    ensures n < pow2(n)
    decreases n
{
    lemma2_to64();
    if n > 0 { lemma_lt_pow2((n - 1) as nat); lemma_pow2_unfold(n); }
}
// b^r <= v < 2^bits  ==>  r < bits
pub proof fn lemma_log_lt_bits(v: int, b: int, r: nat, bits: nat)
    requires b >= 2, pow(b, r) <= v, v < pow2(bits)
    ensures r < bits
{
    lemma_pow_ge_pow2(b, r);
    if r >= bits { if r > bits { lemma_pow2_strictly_increases(bits, r); } }
}

// the bit length of a non-zero value is its binary logarithm plus one
pub proof fn lemma_bitlen_is_log2(v: nat)
    requires v != 0
    ensures forall|k: nat| #[trigger] is_bit_len(v, k) ==> k >= 1 && is_floor_log(v as int, 2, (k - 1) as nat)
{
    assert forall|k: nat| #[trigger] is_bit_len(v, k) implies k >= 1 && is_floor_log(v as int, 2, (k - 1) as nat) by {
        lemma_pow2((k - 1) as nat); lemma_pow2(k);
    }
}

impl<const BITS: usize, const LIMBS: usize> Uint<BITS, LIMBS> {
//@ import core ZERO
//@ import basics ONE
//@ import basics is_zero
//@ import add checked_add
//@ import pow checked_pow
//@ import bitlen bit_len
//@ import conv try_from

    // ASSUMED (label A): the generic conversions `Uint::from(2)` and `.to::<usize>()` (trait-generic plumbing over TryFrom, C07)
    #[verifier::external_body]
    pub fn from(v: u64) -> (r: Self)
        requires (v as nat) < pow2(BITS as nat)
        ensures r.wf(), r.val() == v
    { unimplemented!() }
    #[verifier::external_body]
    pub fn to(&self) -> (r: usize)
        requires self.wf(), self.val() <= usize::MAX
        ensures r == self.val()
    { unimplemented!() }

    // ASSUMED (label A): the floating-point estimate `(self.approx_log2() / base.approx_log2())` rounded to a Uint. libm is outside
    // both verifiers; the ONLY property of it the proof uses is one-sided: the estimate exceeds floor(log_base(self)) by at most one.
    // (An estimate that is too small costs iterations, not correctness; `is_normal()` and the conversion not failing are part of it.)
    #[verifier::external_body]
    pub fn float_log_estimate(x: Self, base: Self) -> (e: Self)
        requires x.wf(), base.wf(), base.val() >= 2, x.val() >= base.val()
        ensures e.wf(), e.val() >= 1 ==> pow(base.val() as int, (e.val() - 1) as nat) <= x.val()
    { unimplemented!() }

//@ extract src/log.rs fn log ctx="impl<const BITS: usize, const LIMBS: usize> Uint<BITS, LIMBS>" rewrite="let result = self . approx_log2 ( ) / base . approx_log2 ( ) ; vassert ( result . is_normal ( ) ) ; let mut result = result . try_into ( ) . unwrap ( ) ;" => "let mut result = Self::float_log_estimate(self, base);" #1 rewrite="while let Some ( trial ) = result . checked_add ( Self :: ONE ( ) ) {" => "loop { let trial_opt = result.checked_add(Self::ONE()); if trial_opt.is_none() { break; } let trial = trial_opt.unwrap();" #1
    pub fn log(self, base: Self) -> /*+*/(r:/*-*/ usize/*+*/)
        requires self.wf(), base.wf(), BITS <= usize::MAX - 63,
            self.val() != 0, base.val() >= 2,          // documented: panics otherwise (the two asserts below are obligations here)
        ensures is_floor_log(self.val() as int, base.val() as int, r as nat)/*-*/
    {
        /*+*/let ghost v = self.val() as int; let ghost b = base.val() as int; let ghost W = m2(BITS);
        proof {
            self.lemma_wf_lt(); base.lemma_wf_lt();
            assert(BITS >= 2) by { lemma2_to64(); if BITS < 2 { if BITS == 1 { } } };
            lemma_pow2_strictly_increases(1, BITS as nat); lemma2_to64();
            lemma_pow0(b); lemma_pow1(b);
        }/*-*/
        vassert (!self.is_zero() );
        vassert (base > Self::ONE() );
        if base == Self::from(2) {
            /*+*/proof { lemma_bitlen_is_log2(self.val()); }/*-*/
            return self.bit_len() - 1;
        }
        if self < base {
            return 0;
        }
        let mut result = Self::float_log_estimate(self, base);
        loop
            /*+*/invariant
                self.wf(), base.wf(), result.wf(), BITS <= usize::MAX - 63, BITS >= 2, v == self.val(), b == base.val(), b >= 2, v >= b, W == m2(BITS), v < W,
                result.val() >= 1 ==> pow(b, (result.val() - 1) as nat) <= v,
            ensures
                result.wf(), pow(b, result.val()) <= v,
            decreases result.val()/*-*/
        {
            /*+*/let ghost rv = result.val();
            proof {
                lemma_pow0(b);
                result.lemma_wf_lt();
                if rv >= 2 { lemma_pow_increases(b as nat, (rv - 2) as nat, (rv - 1) as nat); }
                lemma_small_mod(1, W as nat);
                if rv >= 1 { lemma_small_mod((rv - 1) as nat, W as nat); }
            }/*-*/
            if let Some(value) = base.checked_pow(result) {
                if value > self {
                    vassert (!result.is_zero() );
                    result -= Self::ONE();
                    continue;
                }
            } else {
                result -= Self::ONE();
            }
            break;
        }
        loop
            /*+*/invariant
                self.wf(), base.wf(), result.wf(), BITS <= usize::MAX - 63, BITS >= 2, v == self.val(), b == base.val(), b >= 2, v >= b, W == m2(BITS), v < W,
                pow(b, result.val()) <= v,
            ensures
                result.wf(), pow(b, result.val()) <= v, v < pow(b, result.val() + 1),
            decreases BITS - result.val()/*-*/
        {
            /*+*/proof {
                lemma_log_lt_bits(v, b, result.val(), BITS as nat);
                lemma_lt_pow2(BITS as nat);
            }/*-*/
            let trial_opt = result.checked_add(Self::ONE()); if trial_opt.is_none() { break; } let trial = trial_opt.unwrap();
            if let Some(value) = base.checked_pow(trial) {
                if value <= self {
                    result = trial;
                    continue;
                }
            }
            break;
        }
        /*+*/proof { lemma_log_lt_bits(v, b, result.val(), BITS as nat); }/*-*/
        result.to()
    }
//@ end

//@ extract src/log.rs fn checked_log
    pub fn checked_log(self, base: Self) -> /*+*/(r:/*-*/ Option<usize>/*+*/)
        requires self.wf(), base.wf(), BITS <= usize::MAX - 63
        ensures
            r.is_none() <==> (self.val() == 0 || base.val() < 2),
            r.is_some() ==> is_floor_log(self.val() as int, base.val() as int, r.unwrap() as nat),/*-*/
    {
        if base <= Self::ONE() || self.is_zero() {
            /*+*/proof { if BITS == 0 { lemma2_to64(); base.lemma_wf_lt(); } }/*-*/
            return None;
        }
        Some(self.log(base))
    }
//@ end

//@ extract src/log.rs fn checked_log2
    pub fn checked_log2(self) -> /*+*/(r:/*-*/ Option<usize>/*+*/)
        requires self.wf(), BITS <= usize::MAX - 63
        ensures
            r.is_none() <==> self.val() == 0,
            r.is_some() ==> is_floor_log(self.val() as int, 2, r.unwrap() as nat),/*-*/
    {
        if self.is_zero() {
            return None;
        }
        /*+*/proof { lemma_bitlen_is_log2(self.val()); }/*-*/
        Some(self.bit_len() - 1)
    }
//@ end

//@ extract src/log.rs fn log2
    pub fn log2(self) -> /*+*/(r:/*-*/ usize/*+*/)
        requires self.wf(), BITS <= usize::MAX - 63, self.val() != 0      // documented: panics for zero
        ensures is_floor_log(self.val() as int, 2, r as nat)/*-*/
    {
        vassert (!self.is_zero() );
        /*+*/proof { lemma_bitlen_is_log2(self.val()); }/*-*/
        self.bit_len() - 1
    }
//@ end
//@ extract src/log.rs fn checked_log10 rewrite="Self :: try_from ( 10_u64 )" => "Self::TryFrom_u64__try_from(10_u64)" #1
    pub fn checked_log10(self) -> /*+*/(r:/*-*/ Option<usize>/*+*/)
        requires self.wf(), BITS <= usize::MAX - 63
        ensures
            r.is_none() <==> self.val() == 0,
            r.is_some() && pow2(BITS as nat) > 10 ==> is_floor_log(self.val() as int, 10, r.unwrap() as nat),
            r.is_some() && pow2(BITS as nat) <= 10 ==> r.unwrap() == 0,/*-*/       // ten does not fit: every non-zero value is below it
    {
        match Self::TryFrom_u64__try_from(10_u64) {
            Ok(base) => self.checked_log(base),
            Err(_) if self.is_zero() => None,
            Err(_) => Some(0),
        }
    }
//@ end

//@ extract src/log.rs fn log10 rewrite="Self :: try_from ( 10_u64 )" => "Self::TryFrom_u64__try_from(10_u64)" #1
    pub fn log10(self) -> /*+*/(r:/*-*/ usize/*+*/)
        requires self.wf(), BITS <= usize::MAX - 63, self.val() != 0      // documented: panics for zero
        ensures
            pow2(BITS as nat) > 10 ==> is_floor_log(self.val() as int, 10, r as nat),
            pow2(BITS as nat) <= 10 ==> r == 0,/*-*/
    {
        match Self::TryFrom_u64__try_from(10_u64) {
            Ok(base) => self.log(base),
            Err(_) => {
                vassert (!self.is_zero() );
                0
            }
        }
    }
//@ end
}

} // verus!
fn main() {}

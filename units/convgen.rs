// unit convgen: src/from.rs - the generic conversion families from / saturating_from / wrapping_from / to / wrapping_to / saturating_to,
// proved for EVERY type parameter T relative to the contract of the UintTryFrom<T> / UintTryTo<T> trait method they dispatch to  (C07)
#![allow(non_snake_case)]
use vstd::prelude::*;
use vstd::arithmetic::power::*;
use vstd::arithmetic::power2::*;
use vstd::arithmetic::mul::*;
use vstd::arithmetic::div_mod::*;
use vstd::bits::*;
use core::fmt::Debug;
verus! {
//@ include lib/base.rs

//@ extract src/lib.rs struct Uint
pub struct Uint<const BITS: usize, const LIMBS: usize> { pub
    limbs: [u64; LIMBS],
}
//@ end

//@ include lib/uint_spec.rs

//@ extract src/from.rs enum ToUintError
pub enum ToUintError<T> {
    ValueTooLarge(usize, T),
    ValueNegative(usize, T),
    NotANumber(usize),
}
//@ end

//@ extract src/from.rs enum FromUintError
pub enum FromUintError<T> {
    Overflow(usize, T, T),
}
//@ end

// the real enum derives Debug (attributes are dropped by N1); restated, outside verification, for `Result::expect`'s bound
#[verifier::external]
impl<T: Debug> Debug for FromUintError<T> { fn fmt(&self, f: &mut core::fmt::Formatter<'_>) -> core::fmt::Result { f.write_str("FromUintError") } }

// The two dispatch traits. Ghost additions: a spec function naming the outcome of the trait method for each implementor, and the
// method's postcondition tying the executable result to it. Each implementor's outcome is characterised where that impl is proved
// (units conv, conv_prim, conv_slice); the generic wrappers below are proved against the trait contract alone, i.e. for every T.
//@ extract src/from.rs trait UintTryFrom
pub trait UintTryFrom<T>: Sized {
    /*+*/spec fn try_from_outcome(value: T) -> Result<Self, ToUintError<Self>>;/*-*/
    fn uint_try_from(value: T) -> /*+*/(r:/*-*/ Result<Self, ToUintError<Self>>/*+*/)
        ensures r == Self::try_from_outcome(value)/*-*/;
}
//@ end

//@ extract src/from.rs trait UintTryTo
pub trait UintTryTo<T>: Sized {
    /*+*/spec fn try_to_outcome(&self) -> Result<T, FromUintError<T>>;/*-*/
    fn uint_try_to(&self) -> /*+*/(r:/*-*/ Result<T, FromUintError<T>>/*+*/)
        ensures r == self.try_to_outcome()/*-*/;
}
//@ end

impl<const BITS: usize, const LIMBS: usize> Uint<BITS, LIMBS> {
//@ import core ZERO
//@ import core MAX

//@ extract src/from.rs fn from ctx="impl<constBITS:usize,constLIMBS:usize>Uint<BITS,LIMBS>"
    pub fn from<T>(value: T) -> /*+*/(r:/*-*/ Self/*+*/)/*-*/
    where
        Self: UintTryFrom<T>,
        // the panicking form: defined exactly when the conversion succeeds (N7: the panic! arm must be unreachable)
        /*+*/requires Self::try_from_outcome(value) is Ok
        ensures Ok::<Self, ToUintError<Self>>(r) == Self::try_from_outcome(value)/*-*/
    {
        match Self::uint_try_from(value) {
            Ok(n) => n,
            Err(e) => vpanic(),
        }
    }
//@ end

//@ extract src/from.rs fn saturating_from
    pub fn saturating_from<T>(value: T) -> /*+*/(r:/*-*/ Self/*+*/)/*-*/
    where
        Self: UintTryFrom<T>,
        /*+*/requires Self::sized(), BITS <= usize::MAX - 63
        ensures (match Self::try_from_outcome(value) {
            Ok(n) => r == n,
            Err(ToUintError::ValueTooLarge(_, _)) => r.wf() && r.val() == pow2(BITS as nat) - 1,
            Err(ToUintError::ValueNegative(_, _)) => r.wf() && r.val() == 0,
            Err(ToUintError::NotANumber(_)) => r.wf() && r.val() == 0,
        })/*-*/
    {
        match Self::uint_try_from(value) {
            Ok(n) => n,
            Err(ToUintError::ValueTooLarge(..)) => Self::MAX(),
            Err(ToUintError::ValueNegative(..) | ToUintError::NotANumber(_)) => Self::ZERO(),
        }
    }
//@ end

//@ extract src/from.rs fn wrapping_from
    pub fn wrapping_from<T>(value: T) -> /*+*/(r:/*-*/ Self/*+*/)/*-*/
    where
        Self: UintTryFrom<T>,
        /*+*/requires Self::sized(), BITS <= usize::MAX - 63
        ensures (match Self::try_from_outcome(value) {
            Ok(n) => r == n,
            Err(ToUintError::ValueTooLarge(_, n)) => r == n,
            Err(ToUintError::ValueNegative(_, n)) => r == n,
            Err(ToUintError::NotANumber(_)) => r.wf() && r.val() == 0,
        })/*-*/
    {
        match Self::uint_try_from(value) {
            Ok(n) | Err(ToUintError::ValueTooLarge(_, n) | ToUintError::ValueNegative(_, n)) => n,
            Err(ToUintError::NotANumber(_)) => Self::ZERO(),
        }
    }
//@ end

//@ extract src/from.rs fn to
    pub fn to<T>(&self) -> /*+*/(r:/*-*/ T/*+*/)/*-*/
    where
        Self: UintTryTo<T>,
        T: Debug,
        /*+*/requires self.try_to_outcome() is Ok
        ensures Ok::<T, FromUintError<T>>(r) == self.try_to_outcome()/*-*/
    {
        self.uint_try_to().expect("Uint conversion error")
    }
//@ end

//@ extract src/from.rs fn wrapping_to
    pub fn wrapping_to<T>(&self) -> /*+*/(r:/*-*/ T/*+*/)/*-*/
    where
        Self: UintTryTo<T>,
        /*+*/ensures (match self.try_to_outcome() { Ok(n) => r == n, Err(FromUintError::Overflow(_, n, _)) => r == n })/*-*/
    {
        match self.uint_try_to() {
            Ok(n) | Err(FromUintError::Overflow(_, n, _)) => n,
        }
    }
//@ end

//@ extract src/from.rs fn saturating_to
    pub fn saturating_to<T>(&self) -> /*+*/(r:/*-*/ T/*+*/)/*-*/
    where
        Self: UintTryTo<T>,
        /*+*/ensures (match self.try_to_outcome() { Ok(n) => r == n, Err(FromUintError::Overflow(_, _, n)) => r == n })/*-*/
    {
        match self.uint_try_to() {
            Ok(n) | Err(FromUintError::Overflow(_, _, n)) => n,
        }
    }
//@ end
}

} // verus!
fn main() {}

// unit byteslice: src/bytes.rs try_from_le_slice / try_from_be_slice - the byte-slice decoders every byte-oriented constructor and codec funnels into  (C08, C17)
#![allow(non_snake_case)]
use vstd::prelude::*;
use vstd::arithmetic::power::*;
use vstd::arithmetic::power2::*;
use vstd::arithmetic::mul::*;
use vstd::arithmetic::div_mod::*;
use vstd::bits::*;
verus! {
global size_of usize == 8;
//@ include lib/base.rs
//@ include lib/lvr.rs

//@ extract src/lib.rs struct Uint
pub struct Uint<const BITS: usize, const LIMBS: usize> { pub
    limbs: [u64; LIMBS],
}
//@ end

//@ include lib/uint_spec.rs

// base-256 positional value of the first k bytes, least significant byte first
pub open spec fn p256(k: int) -> int { pow2((8 * k) as nat) as int }
pub open spec fn lbv(s: Seq<u8>, k: int) -> int
    decreases k
{
    if k <= 0 { 0 } else { lbv(s, k - 1) + s[k - 1] as int * p256(k - 1) }
}
// the same bytes read from the other end (big-endian strings are valued through their reversal)
pub open spec fn rev(s: Seq<u8>) -> Seq<u8> { Seq::new(s.len(), |j: int| s[s.len() - 1 - j]) }
// little-endian value of the eight bytes at off .. off + 8
pub open spec fn w8(s: Seq<u8>, off: int) -> int {
    s[off] as int + 0x100 * s[off + 1] as int + 0x1_0000 * s[off + 2] as int + 0x100_0000 * s[off + 3] as int
        + 0x1_0000_0000 * s[off + 4] as int + 0x100_0000_0000 * s[off + 5] as int + 0x1_0000_0000_0000 * s[off + 6] as int
        + 0x100_0000_0000_0000 * s[off + 7] as int
}

pub proof fn lemma_lbv_bound(s: Seq<u8>, k: int)
    requires 0 <= k <= s.len()
    ensures 0 <= lbv(s, k) < p256(k)
    decreases k
{
    if k <= 0 { lemma2_to64(); } else {
        lemma_lbv_bound(s, k - 1);
        lemma_pow2_adds((8 * (k - 1)) as nat, 8); lemma2_to64(); lemma_pow2_pos((8 * (k - 1)) as nat);
        let w = p256(k - 1); let b = s[k - 1] as int;
        assert(p256(k) == w * 256);
        assert(lbv(s, k - 1) + b * w < w * 256) by(nonlinear_arith) requires 0 <= lbv(s, k - 1) < w, 0 <= b <= 255;
        assert(b * w >= 0) by(nonlinear_arith) requires b >= 0, w > 0;
    }
}
// digit i of a base-256 string's value is its byte i
pub proof fn lemma_lbv_digit(s: Seq<u8>, k: int, i: int)
    requires 0 <= i < k <= s.len()
    ensures (lbv(s, k) / p256(i)) % 256 == s[i] as int
    decreases k
{
    lemma2_to64();
    lemma_pow2_pos((8 * i) as nat);
    let w = p256(i);
    if k == i + 1 {
        lemma_lbv_bound(s, i);
        let lo = lbv(s, i); let b = s[i] as int;
        assert(lbv(s, k) == b * w + lo) by(nonlinear_arith) requires lbv(s, k) == lo + b * w;
        lemma_fundamental_div_mod_converse(lbv(s, k), w, b, lo);
        lemma_small_mod(b as nat, 256);
    } else {
        lemma_lbv_digit(s, k - 1, i);
        // adding a multiple of 256 * 256^i does not change digit i
        let top = s[k - 1] as int;
        let e = (k - 1 - i - 1) as nat;      // 256^(k-1) == 256^i * 256 * 256^e
        lemma_pow2_adds((8 * i) as nat, 8);
        lemma_pow2_adds((8 * (i + 1)) as nat, (8 * e) as nat);
        lemma_pow2_pos((8 * e) as nat);
        let pe = pow2((8 * e) as nat) as int;
        assert(p256(k - 1) == w * 256 * pe);
        let v0 = lbv(s, k - 1);
        let m = top * pe;                      // lbv(s,k) == v0 + w * (256 * m)
        assert(lbv(s, k) == w * (256 * m) + v0) by(nonlinear_arith) requires lbv(s, k) == v0 + top * (w * 256 * pe), m == top * pe;
        lemma_lbv_bound(s, k - 1);
        lemma_fundamental_div_mod(v0, w);
        let q0 = v0 / w; let r0 = v0 % w;
        lemma_mod_bound(v0, w);
        assert(lbv(s, k) == w * (256 * m + q0) + r0) by(nonlinear_arith) requires lbv(s, k) == w * (256 * m) + v0, v0 == w * q0 + r0;
        lemma_fundamental_div_mod_converse(lbv(s, k), w, 256 * m + q0, r0);
        lemma_mod_multiples_vanish(m, q0, 256);
        assert(256 * m + q0 == 256 * m + q0);
    }
}
// eight more bytes are one more limb
pub proof fn lemma_lbv_w8(s: Seq<u8>, i: int)
    requires 0 <= i, 8 * i + 8 <= s.len()
    ensures lbv(s, 8 * i + 8) == lbv(s, 8 * i) + bp(i) * w8(s, 8 * i), 0 <= w8(s, 8 * i) < B
{
    let o = 8 * i; let w = bp(i);
    lemma_bp_is_pow2(i as nat); lemma2_to64(); lemma_bp_pos(i);
    lemma_pow2_adds((64 * i) as nat, 8); lemma_pow2_adds((64 * i) as nat, 16); lemma_pow2_adds((64 * i) as nat, 24); lemma_pow2_adds((64 * i) as nat, 32);
    lemma_pow2_adds((64 * i) as nat, 40); lemma_pow2_adds((64 * i) as nat, 48); lemma_pow2_adds((64 * i) as nat, 56);
    assert(pow2(40) == 0x100_0000_0000 && pow2(48) == 0x1_0000_0000_0000 && pow2(56) == 0x100_0000_0000_0000) by { lemma2_to64_rest(); }
    assert(p256(o) == w && p256(o + 1) == w * 0x100 && p256(o + 2) == w * 0x1_0000 && p256(o + 3) == w * 0x100_0000 && p256(o + 4) == w * 0x1_0000_0000
        && p256(o + 5) == w * 0x100_0000_0000 && p256(o + 6) == w * 0x1_0000_0000_0000 && p256(o + 7) == w * 0x100_0000_0000_0000);
    let a0 = s[o] as int; let a1 = s[o + 1] as int; let a2 = s[o + 2] as int; let a3 = s[o + 3] as int;
    let a4 = s[o + 4] as int; let a5 = s[o + 5] as int; let a6 = s[o + 6] as int; let a7 = s[o + 7] as int;
    assert(lbv(s, o + 8) == lbv(s, o + 7) + a7 * p256(o + 7));
    assert(lbv(s, o + 7) == lbv(s, o + 6) + a6 * p256(o + 6));
    assert(lbv(s, o + 6) == lbv(s, o + 5) + a5 * p256(o + 5));
    assert(lbv(s, o + 5) == lbv(s, o + 4) + a4 * p256(o + 4));
    assert(lbv(s, o + 4) == lbv(s, o + 3) + a3 * p256(o + 3));
    assert(lbv(s, o + 3) == lbv(s, o + 2) + a2 * p256(o + 2));
    assert(lbv(s, o + 2) == lbv(s, o + 1) + a1 * p256(o + 1));
    assert(lbv(s, o + 1) == lbv(s, o) + a0 * p256(o));
    assert(a1 * (w * 0x100) == w * (0x100 * a1)) by(nonlinear_arith);
    assert(a2 * (w * 0x1_0000) == w * (0x1_0000 * a2)) by(nonlinear_arith);
    assert(a3 * (w * 0x100_0000) == w * (0x100_0000 * a3)) by(nonlinear_arith);
    assert(a4 * (w * 0x1_0000_0000) == w * (0x1_0000_0000 * a4)) by(nonlinear_arith);
    assert(a5 * (w * 0x100_0000_0000) == w * (0x100_0000_0000 * a5)) by(nonlinear_arith);
    assert(a6 * (w * 0x1_0000_0000_0000) == w * (0x1_0000_0000_0000 * a6)) by(nonlinear_arith);
    assert(a7 * (w * 0x100_0000_0000_0000) == w * (0x100_0000_0000_0000 * a7)) by(nonlinear_arith);
    lemma_mul_is_commutative(a0, w);
    let t1 = a0 + 0x100 * a1; let t2 = t1 + 0x1_0000 * a2; let t3 = t2 + 0x100_0000 * a3; let t4 = t3 + 0x1_0000_0000 * a4;
    let t5 = t4 + 0x100_0000_0000 * a5; let t6 = t5 + 0x1_0000_0000_0000 * a6;
    lemma_mul_is_distributive_add(w, a0, 0x100 * a1);
    lemma_mul_is_distributive_add(w, t1, 0x1_0000 * a2);
    lemma_mul_is_distributive_add(w, t2, 0x100_0000 * a3);
    lemma_mul_is_distributive_add(w, t3, 0x1_0000_0000 * a4);
    lemma_mul_is_distributive_add(w, t4, 0x100_0000_0000 * a5);
    lemma_mul_is_distributive_add(w, t5, 0x1_0000_0000_0000 * a6);
    lemma_mul_is_distributive_add(w, t6, 0x100_0000_0000_0000 * a7);
    lemma_pow2_64();
}
// overwriting limb l changes the value by the difference times B^l
pub proof fn lemma_lvr_set(s: Seq<u64>, t: Seq<u64>, l: int, n: int)
    requires 0 <= l < n, n <= s.len(), t.len() == s.len(), forall|j: int| 0 <= j < n && j != l ==> t[j] == s[j]
    ensures lvr(t, 0, n) == lvr(s, 0, n) + (t[l] as int - s[l] as int) * bp(l)
{
    lemma_lvr_split(s, 0, l, n); lemma_lvr_split(t, 0, l, n);
    lemma_lvr_ext(s, t, 0, l); lemma_lvr_ext(s, t, l + 1, n);
    let r = lvr(s, l + 1, n);
    assert(lvr(s, l, n) == s[l] as int + B * r);
    assert(lvr(t, l, n) == t[l] as int + B * r);
    assert(bp(l) * (t[l] as int + B * r) == bp(l) * (s[l] as int + B * r) + (t[l] as int - s[l] as int) * bp(l)) by(nonlinear_arith);
}
// a byte string no longer than BYTES = ceil(BITS/8) fits the limb array; BYTES % 8 == 0 means BYTES == 8 * LIMBS
pub proof fn lemma_bytes_limbs(bits: int, limbs: int, bytes: int)
    requires bits >= 0, limbs == (bits + 63) / 64, bytes == (bits + 7) / 8
    ensures bytes <= 8 * limbs, bytes % 8 == 0 ==> bytes == 8 * limbs, 8 * bytes >= bits
{ }

// N20 callees.  ASSUMED (label A: x86-64 unaligned little-endian load / `u64::from_be_bytes` of a raw 8-byte read): the value of the eight
// bytes; the REQUIRES clauses are the memory-safety conditions of the raw reads and are proof obligations at the call sites.
// Kani: core_specs::core_specs_raw_u64_reads (all offsets of a 24-byte slice, all contents).
#[verifier::external_body]
pub fn le_u64_at(bytes: &[u8], off: usize) -> (r: u64)
    requires off + 8 <= bytes.len()
    ensures r as int == w8(bytes@, off as int)
{ u64::from_le_bytes(unsafe { *bytes.as_ptr().add(off).cast() }) }
#[verifier::external_body]
pub fn be_u64_before_end(bytes: &[u8], back: usize) -> (r: u64)
    requires 8 <= back <= bytes.len()
    ensures r as int == w8(rev(bytes@), back as int - 8)
{ let end = bytes.as_ptr_range().end; u64::from_be_bytes(unsafe { *end.sub(back).cast() }) }

impl<const BITS: usize, const LIMBS: usize> Uint<BITS, LIMBS> {
//@ import core LIMBS
//@ import core MASK
//@ import core from_limbs

//@ extract src/bytes.rs const BYTES
    pub fn BYTES ( ) -> /*+*/(r:/*-*/ usize/*+*/)
        requires BITS <= usize::MAX - 63
        ensures r == (BITS + 7) / 8/*-*/
    { (BITS + 7) / 8 }
//@ end

    // shared tail of the decoders: the limb array holds the value v of the byte string
    pub proof fn lemma_decoded(limbs: [u64; LIMBS], v: int)
        requires Self::sized(), lvr(limbs@, 0, LIMBS as int) == v
        ensures LIMBS > 0 ==> ((limbs[LIMBS - 1] > spec_mask(BITS)) == (v >= pow2(BITS as nat))),
            LIMBS == 0 ==> v == 0 && pow2(BITS as nat) == 1,
            (Uint::<BITS, LIMBS> { limbs: limbs }).val() as int == v,
    {
        let u = Uint::<BITS, LIMBS> { limbs: limbs };
        lemma_lvr_is_lv(limbs@, LIMBS as nat);
        if LIMBS > 0 { u.lemma_wf_iff_lt(); } else { lemma2_to64(); assert(lvr(limbs@, 0, 0) == 0); }
    }

//@ extract src/bytes.rs fn try_from_le_slice
    pub fn try_from_le_slice(bytes: &[u8]) -> /*+*/(r:/*-*/ Option<Self>/*+*/)
        requires Self::sized(), BITS <= usize::MAX - 63
        ensures
            // accepted exactly when the string is at most BYTES long and denotes a value < 2^BITS; then that value
            r.is_some() == (bytes.len() <= (BITS + 7) / 8 && lbv(bytes@, bytes.len() as int) < pow2(BITS as nat)),
            r.is_some() ==> r.unwrap().wf() && r.unwrap().val() as int == lbv(bytes@, bytes.len() as int),/*-*/
    {
        /*+*/let ghost n = LIMBS as int; let ghost bs = bytes@; let ghost len = bytes.len() as int;
        proof { lemma_bytes_limbs(BITS as int, n, ((BITS + 7) / 8) as int); lemma_pow2_64(); }/*-*/
        if bytes.len() > Self::BYTES() {
            return None;
        }

        if Self::BYTES() % 8 == 0 && bytes.len() == Self::BYTES() {
            // Optimized implementation for full-limb types.
            let mut limbs = [0; LIMBS];
            let mut i = 0;
            /*+*/proof { assert(lvr(limbs@, 0, 0) == 0); assert(lbv(bs, 0) == 0); }/*-*/
            while i < LIMBS
                /*+*/invariant n == LIMBS, bs == bytes@, len == bytes.len(), len == 8 * n, 0 <= i <= n,
                    lvr(limbs@, 0, i as int) == lbv(bs, 8 * i),
                decreases n - i/*-*/
            {
                /*+*/let ghost l0 = limbs@;/*-*/
                limbs[i] = le_u64_at ( bytes ,i * 8 );
                /*+*/proof {
                    lemma_lbv_w8(bs, i as int);
                    lemma_lvr_push(limbs@, 0, i as int);
                    lemma_lvr_ext(limbs@, l0, 0, i as int);
                }/*-*/
                i += 1;
            }
            /*+*/proof { Self::lemma_decoded(limbs, lbv(bs, len)); }/*-*/
            if Self::LIMBS() > 0 && limbs[Self::LIMBS() - 1] > Self::MASK() {
                return None;
            }
            return Some(Self::from_limbs(limbs));
        }

        let mut limbs = [0; LIMBS];
        let mut i = 0;
        /*+*/proof { lemma_lvr_zero(limbs@, 0, n); assert(lbv(bs, 0) == 0); }/*-*/
        while i < bytes.len()
            /*+*/invariant n == LIMBS, bs == bytes@, len == bytes.len(), len <= 8 * n, 0 <= i <= len, B == 0x1_0000_0000_0000_0000,
                lvr(limbs@, 0, n) == lbv(bs, i as int),
                // limbs above the write position are still zero; the limb being filled holds only the bytes written so far
                forall|j: int| 0 <= j < n && 8 * j >= i ==> limbs@[j] == 0,
                forall|j: int| 0 <= j < n && 8 * j < i < 8 * j + 8 ==> (limbs@[j] as int) < pow2((8 * (i - 8 * j)) as nat),
            decreases len - i/*-*/
        {
            let (limb, byte) = (i / 8, i % 8);
            /*+*/let ghost l0 = limbs@;
            let ghost x = bytes[i as int] as u64;
            proof {
                let sh = (8 * byte) as nat;
                lemma2_to64(); lemma2_to64_rest();
                lemma_pow2_adds(sh, 8); lemma_pow2_pos(sh);
                if sh + 8 < 64 { lemma_pow2_strictly_increases((sh + 8) as nat, 64); }
                assert((x as int) * pow2(sh) <= 255 * pow2(sh)) by(nonlinear_arith) requires 0 <= x as int <= 255, pow2(sh) > 0;
                assert(255 * pow2(sh) + pow2(sh) == pow2(sh) * 256) by(nonlinear_arith);
                lemma_u64_shl_is_mul(x, (8 * byte) as u64);
                if byte == 0 { assert(l0[limb as int] == 0); } else { assert((l0[limb as int] as int) < pow2(sh)); }
            }/*-*/
            limbs[limb] += (bytes[i] as u64) << (byte * 8);
            /*+*/proof {
                let sh = (8 * byte) as nat;
                lemma_lvr_set(l0, limbs@, limb as int, n);
                lemma_bp_is_pow2(limb as nat);
                lemma_pow2_adds((64 * limb) as nat, sh);
                assert(p256(i as int) == bp(limb as int) * pow2(sh)) by { lemma_mul_is_commutative(bp(limb as int), pow2(sh) as int); }
                assert(((x as int) * pow2(sh)) * bp(limb as int) == (x as int) * p256(i as int)) by(nonlinear_arith) requires p256(i as int) == bp(limb as int) * pow2(sh);
                lemma_pow2_adds(sh, 8);
            }/*-*/
            i += 1;
        }
        /*+*/proof { Self::lemma_decoded(limbs, lbv(bs, len)); }/*-*/
        if Self::LIMBS() > 0 && limbs[Self::LIMBS() - 1] > Self::MASK() {
            return None;
        }
        Some(Self::from_limbs(limbs))
    }
//@ end

//@ extract src/bytes.rs fn try_from_be_slice
    pub fn try_from_be_slice(bytes: &[u8]) -> /*+*/(r:/*-*/ Option<Self>/*+*/)
        requires Self::sized(), BITS <= usize::MAX - 63
        ensures
            // as try_from_le_slice, the string being valued from its last byte (most significant first)
            r.is_some() == (bytes.len() <= (BITS + 7) / 8 && lbv(rev(bytes@), bytes.len() as int) < pow2(BITS as nat)),
            r.is_some() ==> r.unwrap().wf() && r.unwrap().val() as int == lbv(rev(bytes@), bytes.len() as int),/*-*/
    {
        /*+*/let ghost n = LIMBS as int; let ghost bs = rev(bytes@); let ghost len = bytes.len() as int;
        proof { lemma_bytes_limbs(BITS as int, n, ((BITS + 7) / 8) as int); lemma_pow2_64(); }/*-*/
        if bytes.len() > Self::BYTES() {
            return None;
        }

        if Self::BYTES() % 8 == 0 && bytes.len() == Self::BYTES() {
            // Optimized implementation for full-limb types.
            let mut limbs = [0; LIMBS];
            let mut i = 0;
            /*+*/proof { assert(lvr(limbs@, 0, 0) == 0); assert(lbv(bs, 0) == 0); }/*-*/
            while i < LIMBS
                /*+*/invariant n == LIMBS, bs == rev(bytes@), len == bytes.len(), len == 8 * n, 0 <= i <= n,
                    lvr(limbs@, 0, i as int) == lbv(bs, 8 * i),
                decreases n - i/*-*/
            {
                /*+*/let ghost l0 = limbs@;/*-*/
                limbs[i] = be_u64_before_end ( bytes ,(i + 1) * 8 );
                /*+*/proof {
                    lemma_lbv_w8(bs, i as int);
                    lemma_lvr_push(limbs@, 0, i as int);
                    lemma_lvr_ext(limbs@, l0, 0, i as int);
                }/*-*/
                i += 1;
            }
            /*+*/proof { Self::lemma_decoded(limbs, lbv(bs, len)); }/*-*/
            if Self::LIMBS() > 0 && limbs[Self::LIMBS() - 1] > Self::MASK() {
                return None;
            }
            return Some(Self::from_limbs(limbs));
        }

        let mut limbs = [0; LIMBS];
        let mut i = 0;
        let mut c = bytes.len();
        /*+*/proof { lemma_lvr_zero(limbs@, 0, n); assert(lbv(bs, 0) == 0); }/*-*/
        while i < bytes.len()
            /*+*/invariant n == LIMBS, bs == rev(bytes@), len == bytes.len(), len <= 8 * n, 0 <= i <= len, B == 0x1_0000_0000_0000_0000, c == len - i,
                lvr(limbs@, 0, n) == lbv(bs, i as int),
                // limbs above the write position are still zero; the limb being filled holds only the bytes written so far
                forall|j: int| 0 <= j < n && 8 * j >= i ==> limbs@[j] == 0,
                forall|j: int| 0 <= j < n && 8 * j < i < 8 * j + 8 ==> (limbs@[j] as int) < pow2((8 * (i - 8 * j)) as nat),
            decreases len - i/*-*/
        {
            c -= 1;
            let (limb, byte) = (i / 8, i % 8);
            /*+*/let ghost l0 = limbs@;
            let ghost x = bytes[c as int] as u64;
            proof { assert(bs[i as int] == bytes@[c as int]); }
            proof {
                let sh = (8 * byte) as nat;
                lemma2_to64(); lemma2_to64_rest();
                lemma_pow2_adds(sh, 8); lemma_pow2_pos(sh);
                if sh + 8 < 64 { lemma_pow2_strictly_increases((sh + 8) as nat, 64); }
                assert((x as int) * pow2(sh) <= 255 * pow2(sh)) by(nonlinear_arith) requires 0 <= x as int <= 255, pow2(sh) > 0;
                assert(255 * pow2(sh) + pow2(sh) == pow2(sh) * 256) by(nonlinear_arith);
                lemma_u64_shl_is_mul(x, (8 * byte) as u64);
                if byte == 0 { assert(l0[limb as int] == 0); } else { assert((l0[limb as int] as int) < pow2(sh)); }
            }/*-*/
            limbs[limb] += (bytes[c] as u64) << (byte * 8);
            /*+*/proof {
                let sh = (8 * byte) as nat;
                lemma_lvr_set(l0, limbs@, limb as int, n);
                lemma_bp_is_pow2(limb as nat);
                lemma_pow2_adds((64 * limb) as nat, sh);
                assert(p256(i as int) == bp(limb as int) * pow2(sh)) by { lemma_mul_is_commutative(bp(limb as int), pow2(sh) as int); }
                assert(((x as int) * pow2(sh)) * bp(limb as int) == (x as int) * p256(i as int)) by(nonlinear_arith) requires p256(i as int) == bp(limb as int) * pow2(sh);
                lemma_pow2_adds(sh, 8);
            }/*-*/
            i += 1;
        }
        /*+*/proof { Self::lemma_decoded(limbs, lbv(bs, len)); }/*-*/
        if Self::LIMBS() > 0 && limbs[Self::LIMBS() - 1] > Self::MASK() {
            return None;
        }
        Some(Self::from_limbs(limbs))
    }
//@ end
//@ extract src/bytes.rs fn from_le_slice
    pub fn from_le_slice(bytes: &[u8]) -> /*+*/(r:/*-*/ Self/*+*/)
        requires Self::sized(), BITS <= usize::MAX - 63,
            // documented: panics if the value is too large for the bit-size of the Uint
            bytes.len() <= (BITS + 7) / 8, lbv(bytes@, bytes.len() as int) < pow2(BITS as nat)
        ensures r.wf(), r.val() as int == lbv(bytes@, bytes.len() as int)/*-*/
    {
        match Self::try_from_le_slice(bytes) {
            Some(value) => value,
            None => vpanic ( ),
        }
    }
//@ end

//@ extract src/bytes.rs fn from_be_slice
    pub fn from_be_slice(bytes: &[u8]) -> /*+*/(r:/*-*/ Self/*+*/)
        requires Self::sized(), BITS <= usize::MAX - 63,
            bytes.len() <= (BITS + 7) / 8, lbv(rev(bytes@), bytes.len() as int) < pow2(BITS as nat)
        ensures r.wf(), r.val() as int == lbv(rev(bytes@), bytes.len() as int)/*-*/
    {
        match Self::try_from_be_slice(bytes) {
            Some(value) => value,
            None => vpanic ( ),
        }
    }
//@ end

//@ extract src/bytes.rs fn from_le_bytes
    pub fn from_le_bytes<const BYTES: usize>(bytes: [u8; BYTES]) -> /*+*/(r:/*-*/ Self/*+*/)
        requires Self::sized(), BITS <= usize::MAX - 63,
            // documented: panics if BYTES is not Self::BYTES or the value is too large
            BYTES == (BITS + 7) / 8, lbv(bytes@, BYTES as int) < pow2(BITS as nat)
        ensures r.wf(), r.val() as int == lbv(bytes@, BYTES as int)/*-*/
    {
        // TODO: Use a `const {}` block for this assertion
        vassert (BYTES == Self::BYTES() );
        Self::from_le_slice(&bytes)
    }
//@ end

//@ extract src/bytes.rs fn from_be_bytes
    pub fn from_be_bytes<const BYTES: usize>(bytes: [u8; BYTES]) -> /*+*/(r:/*-*/ Self/*+*/)
        requires Self::sized(), BITS <= usize::MAX - 63,
            BYTES == (BITS + 7) / 8, lbv(rev(bytes@), BYTES as int) < pow2(BITS as nat)
        ensures r.wf(), r.val() as int == lbv(rev(bytes@), BYTES as int)/*-*/
    {
        // TODO: Use a `const {}` block for this assertion
        vassert (BYTES == Self::BYTES() );
        Self::from_be_slice(&bytes)
    }
//@ end
    // ASSUMED (label A, memory layout on a little-endian target): to_le_bytes is `*self.as_le_slice().as_ptr().cast()`, the first BYTES bytes of the
    // limb array reinterpreted - they are the base-256 digits of the value, least significant first.  Kani: c08_to_le_bytes_* per width.
    #[verifier::external_body]
    pub fn to_le_bytes<const BYTES: usize>(&self) -> (r: [u8; BYTES])
        requires self.wf(), BYTES == (BITS + 7) / 8
        ensures lbv(r@, BYTES as int) == self.val()
    { unimplemented!() }

//@ extract src/bytes.rs fn to_be_bytes
    pub fn to_be_bytes<const BYTES: usize>(&self) -> /*+*/(r:/*-*/ [u8; BYTES]/*+*/)
        requires self.wf(), BYTES == (BITS + 7) / 8
        // the base-256 digits, most significant first
        ensures lbv(rev(r@), BYTES as int) == self.val()/*-*/
    {
        let mut bytes = self.to_le_bytes::<BYTES>();
        /*+*/let ghost le = bytes@;/*-*/

        // bytes.reverse()
        let len = bytes.len();
        let half_len = len / 2;
        let mut i = 0;
        while i < half_len
            /*+*/invariant len == BYTES, half_len == len / 2, 0 <= i <= half_len, le.len() == len,
                forall|j: int| 0 <= j < len ==> #[trigger] bytes@[j] == (if j < i || j >= len - i { le[len - 1 - j] } else { le[j] }),
            decreases half_len - i/*-*/
        {
            let tmp = bytes[i];
            bytes[i] = bytes[len - 1 - i];
            bytes[len - 1 - i] = tmp;
            i += 1;
        }
        /*+*/proof {
            assert(rev(bytes@) =~= le) by {
                assert forall|j: int| 0 <= j < len implies rev(bytes@)[j] == le[j] by {
                    let q = len - 1 - j;
                    assert(rev(bytes@)[j] == bytes@[q]);
                    if q < i || q >= len - i { } else { assert(i == half_len); assert(q == j); }
                }
            }
        }/*-*/

        bytes
    }
//@ end
    // ASSUMED (label A, memory layout on a little-endian target, same fact as for to_le_bytes): as_le_slice is
    // `slice::from_raw_parts(self.limbs.as_ptr().cast(), Self::BYTES)`, the first BYTES bytes of the limb array - the base-256 digits
    // of the value, least significant first (le_view names that byte string).  Kani: c06 byte / checked_byte harnesses per width.
    pub uninterp spec fn le_view(self) -> Seq<u8>;
    #[verifier::external_body]
    pub proof fn axiom_le_view(self)
        requires self.wf()
        ensures self.le_view().len() == (BITS + 7) / 8, lbv(self.le_view(), ((BITS + 7) / 8) as int) == self.val()
    {}
    #[verifier::external_body]
    pub fn as_le_slice(&self) -> (r: &[u8])
        requires self.wf(), BITS <= usize::MAX - 63
        ensures r@ == self.le_view()
    { unimplemented!() }

//@ extract expanded fn byte
    // taken from rustc's expansion (the cfg(target_endian = "little") arm is the one compiled here); indexing out of range is the
    // documented panic, i.e. `index < BYTES` is the precondition
    pub fn byte(&self, index: usize) -> /*+*/(r:/*-*/ u8/*+*/)
        requires self.wf(), BITS <= usize::MAX - 63, index < (BITS + 7) / 8
        ensures r as int == (self.val() as int / p256(index as int)) % 256/*-*/
    {
        /*+*/proof { self.axiom_le_view(); lemma_lbv_digit(self.le_view(), ((BITS + 7) / 8) as int, index as int); }/*-*/
        { self.as_le_slice()[index] }
    }
//@ end

//@ extract src/bits.rs fn checked_byte
    pub fn checked_byte(&self, index: usize) -> /*+*/(r:/*-*/ Option<u8>/*+*/)
        requires self.wf(), BITS <= usize::MAX - 63
        ensures (index < (BITS + 7) / 8) ==> r == Some(((self.val() as int / p256(index as int)) % 256) as u8),
            (index >= (BITS + 7) / 8) ==> r.is_none()/*-*/
    {
        if index < Self::BYTES() {
            Some(self.byte(index))
        } else {
            None
        }
    }
//@ end
}

} // verus!
fn main() {}

// unit basics: small Uint helpers used by the arithmetic wrappers: const_from_u64, ONE, is_zero, bit (index 0 / out of range)
#![allow(non_snake_case)]
use vstd::prelude::*;
use vstd::arithmetic::power2::*;
use vstd::arithmetic::mul::*;
use vstd::arithmetic::div_mod::*;
use vstd::bits::*;
use vstd::std_specs::cmp::*;
use vstd::std_specs::ops::*;
verus! {
//@ include lib/base.rs

//@ extract src/lib.rs struct Uint
pub struct Uint<const BITS: usize, const LIMBS: usize> { pub
    limbs: [u64; LIMBS],
}
//@ end

//@ include lib/uint_spec.rs
//@ include lib/uint_ops.rs

pub proof fn lemma_lv_first(s: Seq<u64>, n: nat)
    requires 1 <= n <= s.len()
    ensures lv(s, n) % 2 == (s[0] as nat) % 2, lv(s, n) >= s[0] as nat
    decreases n
{
    if n == 1 {
        lemma2_to64();
        assert(lv(s, 1) == lv(s, 0) + (s[0] as nat) * pow2(0));
        assert((s[0] as nat) * 1 == s[0] as nat) by(nonlinear_arith);
    } else {
        lemma_lv_first(s, (n - 1) as nat);
        let w = pow2(64 * (n - 1) as nat);
        lemma_pow2_adds(1, (64 * (n - 1) - 1) as nat); lemma2_to64();
        let h = pow2((64 * (n - 1) - 1) as nat);
        assert(w == 2 * h);
        let t = (s[n - 1] as nat) * w;
        assert(t == 2 * ((s[n - 1] as nat) * h)) by(nonlinear_arith) requires t == (s[n - 1] as nat) * w, w == 2 * h;
        lemma_mod_multiples_vanish(((s[n - 1] as nat) * h) as int, lv(s, (n - 1) as nat) as int, 2);
    }
}

impl<const BITS: usize, const LIMBS: usize> Uint<BITS, LIMBS> {
//@ import core ZERO
//@ import core MAX
//@ import core from_limbs

//@ extract src/from.rs fn const_from_u64
    pub fn const_from_u64(x: u64) -> /*+*/(r:/*-*/ Self/*+*/)
        requires Self::sized(), BITS <= usize::MAX - 63
        ensures r.wf(),
            (BITS >= 64 || (x as nat) < pow2(BITS as nat)) && BITS > 0 ==> r.val() == x,
            !((BITS >= 64 || (x as nat) < pow2(BITS as nat)) && BITS > 0) ==> r.val() == pow2(BITS as nat) - 1,/*-*/
    {
        /*+*/proof {
            if 0 < BITS < 64 {
                let k = BITS as u64;
                lemma_u64_pow2_no_overflow(k as nat); lemma_pow2_pos(k as nat); lemma_u64_shl_is_mul(1, k);
                assert((1u64 << k) as nat == pow2(k as nat));
            }
        }/*-*/
        if BITS == 0 || (BITS < 64 && x >= 1 << BITS) {
            return Self::MAX();
        }
        let mut limbs = [0; LIMBS];
        limbs[0] = x;
        /*+*/proof {
            let s = limbs@;
            assert(LIMBS >= 1);
            lemma_lv_single(s, LIMBS as nat);
            // top limb within the mask
            if LIMBS == 1 {
                if BITS < 64 {
                    let k = (BITS % 64) as nat;
                    lemma_u64_pow2_no_overflow(k); assert(low_bits_mask(k) == pow2(k) - 1);
                }
            } else {
                assert(s[LIMBS - 1] == 0);
            }
        }/*-*/
        Self::from_limbs(limbs)
    }
//@ end

//@ extract src/lib.rs const ONE
    pub fn ONE ( ) -> /*+*/(r:/*-*/ Self/*+*/)
        requires Self::sized(), BITS <= usize::MAX - 63
        ensures r.wf(), BITS > 0 ==> r.val() == 1, BITS == 0 ==> r.val() == 0/*-*/
    {
        /*+*/proof { lemma2_to64(); if BITS > 0 { lemma_pow2_strictly_increases(0, BITS as nat); } }/*-*/
        Self::const_from_u64(1)
    }
//@ end

//@ extract src/cmp.rs fn is_zero
    pub fn is_zero(&self) -> /*+*/(r:/*-*/ bool/*+*/)
        requires self.wf(), BITS <= usize::MAX - 63
        ensures r == (self.val() == 0)/*-*/
    {
        *self == Self::ZERO()
    }
//@ end

//@ extract src/bits.rs fn bit
    pub fn bit(&self, index: usize) -> /*+*/(r:/*-*/ bool/*+*/)
        requires self.wf()
        ensures index >= BITS ==> !r,
            index == 0 && BITS > 0 ==> r == (self.val() % 2 == 1),/*-*/
    {
        if index >= BITS {
            return false;
        }
        let (limbs, bits) = (index / 64, index % 64);
        /*+*/proof {
            if index == 0 {
                lemma_lv_first(self.limbs@, LIMBS as nat);
                let x = self.limbs[0];
                assert((x & (1u64 << 0u64) != 0) == (x % 2 == 1)) by(bit_vector);
            }
        }/*-*/
        self.limbs[limbs] & (1 << bits) != 0
    }
//@ end
}

} // verus!
fn main() {}

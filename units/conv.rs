// unit conv: src/from.rs — TryFrom<u64> and TryFrom<u128> for Uint (the two base cases every primitive-integer conversion funnels into)  (C07)
#![allow(non_snake_case)]
use vstd::prelude::*;
use vstd::arithmetic::power::*;
use vstd::arithmetic::power2::*;
use vstd::arithmetic::mul::*;
use vstd::arithmetic::div_mod::*;
use vstd::bits::*;
verus! {
//@ include lib/base.rs
//@ include lib/lvlow.rs

//@ extract src/lib.rs struct Uint
pub struct Uint<const BITS: usize, const LIMBS: usize> { pub
    limbs: [u64; LIMBS],
}
//@ end

//@ include lib/uint_spec.rs

//@ extract src/from.rs enum ToUintError
pub enum ToUintError<T> {
    ValueTooLarge(usize, T),
    ValueNegative(usize, T),
    NotANumber(usize),
}
//@ end

// a limb array that is zero except for limbs 0 and 1
pub proof fn lemma_lv_double(s: Seq<u64>, n: nat)
    requires 2 <= n <= s.len(), forall|j: int| 2 <= j < n ==> s[j] == 0
    ensures lv(s, n) == s[0] as nat + (s[1] as nat) * pow2(64)
    decreases n
{
    if n == 2 {
        lemma2_to64();
        assert(lv(s, 2) == lv(s, 1) + (s[1] as nat) * pow2(64));
        assert(lv(s, 1) == lv(s, 0) + (s[0] as nat) * pow2(0));
        assert(lv(s, 0) == 0);
        assert((s[0] as nat) * 1 == s[0] as nat) by(nonlinear_arith);
    } else {
        lemma_lv_double(s, (n - 1) as nat);
        assert((s[n - 1] as nat) * pow2(64 * (n - 1) as nat) == 0) by(nonlinear_arith) requires s[n - 1] == 0;
    }
}

//@ include lib/conv_spec.rs

pub open spec fn vbit(v: nat, i: nat) -> bool { (v / pow2(i)) % 2 == 1 }
// two's-complement reading of the low 128 bits
pub open spec fn wrap_i128(x: int) -> i128 { if x < (B / 2) * B { x as i128 } else { (x - B * B) as i128 } }

//@ extract src/from.rs enum FromUintError
pub enum FromUintError<T> {
    Overflow(usize, T, T),
}
//@ end

impl<const BITS: usize, const LIMBS: usize> Uint<BITS, LIMBS> {
//@ import core LIMBS
//@ import core MASK
//@ import core ZERO
//@ import core from_limbs
//@ import core as_limbs
//@ import bitlen bit_len
//@ import bits bit

    // for BITS <= 64:  x > MASK  <==>  x >= 2^BITS,  and  x & MASK == x mod 2^BITS
    pub proof fn lemma_mask_one_limb(x: u64)
        requires Self::sized(), LIMBS <= 1
        ensures (x > spec_mask(BITS)) == ((x as nat) >= pow2(BITS as nat)),
            (x & spec_mask(BITS)) as nat == (x as nat) % pow2(BITS as nat),
    {
        lemma2_to64();
        if BITS == 0 {
            assert(x & 0 == 0) by(bit_vector);
        } else if BITS == 64 {
            assert(x & 0xffff_ffff_ffff_ffffu64 == x) by(bit_vector);
            lemma_pow2_64();
            lemma_small_mod(x as nat, pow2(64));
        } else {
            let k = BITS as nat;
            assert(BITS % 64 == BITS);
            lemma_u64_pow2_no_overflow(k); lemma_pow2_pos(k);
            assert(low_bits_mask(k) == pow2(k) - 1);
            lemma_u64_low_bits_mask_is_mod(x, k);
        }
    }

//@ extract src/from.rs fn try_from ctx="TryFrom<u64>forUint<BITS,LIMBS>" as=TryFrom_u64__try_from rewrite="Self :: Error" => "ToUintError<Self>" #1
    pub fn TryFrom_u64__try_from(value: u64) -> /*+*/(r:/*-*/ Result<Self, ToUintError<Self> >/*+*/)
        requires Self::sized(), BITS <= usize::MAX - 63
        ensures conv_ok(r, value as nat)/*-*/
    {
        /*+*/proof { lemma2_to64(); lemma_pow2_64(); if LIMBS <= 1 { Self::lemma_mask_one_limb(value); } }/*-*/
        if LIMBS <= 1 {
            if value > Self::MASK() {
                let mut limbs = [0; LIMBS];
                if LIMBS == 1 {
                    limbs[0] = value & Self::MASK();
                }
                /*+*/proof {
                    if LIMBS == 1 {
                        lemma_lv_single(limbs@, 1);
                        let u = Uint::<BITS, LIMBS> { limbs: limbs };
                        u.lemma_wf_iff_lt();
                        lemma_pow2_pos(BITS as nat);
                        lemma_mod_bound(value as int, pow2(BITS as nat) as int);
                    } else {
                        assert(lv(limbs@, 0) == 0);
                        assert((value as nat) % 1 == 0);
                    }
                }/*-*/
                return Err(ToUintError::ValueTooLarge(BITS, Self::from_limbs(limbs)));
            }
            if LIMBS == 0 {
                /*+*/proof { assert(value == 0); }/*-*/
                return Ok(Self::ZERO());
            }
        }
        let mut limbs = [0; LIMBS];
        limbs[0] = value;
        /*+*/proof {
            lemma_lv_single(limbs@, LIMBS as nat);
            if LIMBS >= 2 {
                assert(limbs@[LIMBS - 1] == 0);
                lemma_pow2_strictly_increases(64, BITS as nat);
            }
        }/*-*/
        Ok(Self::from_limbs(limbs))
    }
//@ end

//@ extract src/from.rs fn try_from ctx="TryFrom<u128>forUint<BITS,LIMBS>" as=TryFrom_u128__try_from rewrite="Self :: Error" => "ToUintError<Self>" #1 rewrite="Self :: try_from ( value as u64 )" => "Self::TryFrom_u64__try_from(value as u64)" #2 rewrite=". and_then ( | n | Err ( ToUintError :: ValueTooLarge ( BITS , n ) ) )" => ".and_then_too_large()" #1
    pub fn TryFrom_u128__try_from(value: u128) -> /*+*/(r:/*-*/ Result<Self, ToUintError<Self> >/*+*/)
        requires Self::sized(), BITS <= usize::MAX - 63
        ensures conv_ok(r, value as nat)/*-*/
    {
        /*+*/let ghost lo = (value as u64) as nat; let ghost hi = ((value >> 64) as u64) as nat;
        proof {
            lemma2_to64(); lemma_pow2_64();
            lemma_u128_shr_is_div(value, 64);
            assert(value as u64 == (value % 0x1_0000_0000_0000_0000u128) as u64) by(bit_vector);
            assert((value >> 64) < 0x1_0000_0000_0000_0000u128) by(bit_vector);
            lemma_fundamental_div_mod(value as int, B);
            assert(value as nat == lo + hi * pow2(64)) by(nonlinear_arith)
                requires value as int == B * ((value as int) / B) + (value as int) % B, lo == (value as int) % B, hi == (value as int) / B, pow2(64) == B;
        }/*-*/
        if value <= u64::MAX as u128 {
            return Self::TryFrom_u64__try_from(value as u64);
        }
        if Self::LIMBS() < 2 {
            /*+*/proof {
                // BITS <= 64 < bit length of value: too large; value mod 2^BITS == lo mod 2^BITS
                let m = pow2(BITS as nat) as int;
                lemma_pow2_pos(BITS as nat);
                let d = (64 - BITS) as nat;
                lemma_pow2_adds(BITS as nat, d); lemma_pow2_pos(d);
                if BITS < 64 { lemma_pow2_strictly_increases(BITS as nat, 64); }
                assert(hi * pow2(64) == m * (hi * pow2(d))) by(nonlinear_arith) requires pow2(64) == m * pow2(d);
                lemma_mod_multiples_vanish((hi * pow2(d)) as int, lo as int, m);
                assert(value as int == m * (hi * pow2(d)) + lo);
                if lo < m { lemma_small_mod(lo, m as nat); }
            }/*-*/
            return Self::TryFrom_u64__try_from(value as u64)
                .and_then_too_large();
        }
        let mut limbs = [0; LIMBS];
        limbs[0] = value as u64;
        limbs[1] = (value >> 64) as u64;
        /*+*/proof { lemma_lv_double(limbs@, LIMBS as nat); }/*-*/
        if Self::LIMBS() == 2 && limbs[1] > Self::MASK() {
            /*+*/let ghost l0 = limbs@;/*-*/
            limbs[1] &= Self::MASK();
            /*+*/proof {
                // LIMBS == 2: 64 < BITS <= 128, k = BITS - 64
                lemma_lv_double(limbs@, 2);
                let k = (BITS - 64) as nat;
                let top = l0[1];
                lemma_pow2_adds(64, k);
                if BITS == 128 {
                    assert(spec_mask(BITS) == u64::MAX);
                } else {
                    assert(BITS % 64 == k);
                    lemma_u64_pow2_no_overflow(k); lemma_pow2_pos(k);
                    assert(low_bits_mask(k) == pow2(k) - 1);
                    lemma_u64_low_bits_mask_is_mod(top, k);
                    let t1 = (top as nat) % pow2(k);
                    // value == lo + top*2^64 >= 2^BITS, and value mod 2^BITS == lo + (top mod 2^k)*2^64
                    assert((top as nat) * pow2(64) >= pow2(k) * pow2(64)) by(nonlinear_arith) requires top as nat >= pow2(k);
                    lemma_fundamental_div_mod(top as int, pow2(k) as int);
                    let q = (top as int) / (pow2(k) as int);
                    assert(value as int == pow2(BITS as nat) * q + (lo + t1 * pow2(64))) by(nonlinear_arith)
                        requires value as int == lo + (top as int) * pow2(64), top as int == pow2(k) * q + t1, pow2(BITS as nat) == pow2(64) * pow2(k);
                    lemma_mod_bound(top as int, pow2(k) as int);
                    assert(lo + t1 * pow2(64) < pow2(BITS as nat)) by(nonlinear_arith)
                        requires lo < pow2(64), t1 <= pow2(k) - 1, pow2(BITS as nat) == pow2(64) * pow2(k);
                    lemma_fundamental_div_mod_converse(value as int, pow2(BITS as nat) as int, q, (lo + t1 * pow2(64)) as int);
                }
            }/*-*/
            Err(ToUintError::ValueTooLarge(BITS, Self::from_limbs(limbs)))
        } else {
            /*+*/proof {
                if LIMBS == 2 {
                    let u = Uint::<BITS, LIMBS> { limbs: limbs };
                    u.lemma_wf_iff_lt();
                } else {
                    assert(limbs@[LIMBS - 1] == 0);
                    lemma_pow2_strictly_increases(128, BITS as nat);
                    lemma_pow2_adds(64, 64);
                    assert(lo + hi * pow2(64) < pow2(128)) by(nonlinear_arith) requires lo < pow2(64), hi < pow2(64), pow2(128) == pow2(64) * pow2(64);
                }
            }/*-*/
            Ok(Self::from_limbs(limbs))
        }
    }
//@ end
    // lv(s, n) mod 2^128 for n >= 2 is the value of the two low limbs
    pub proof fn lemma_lv_low_two(s: Seq<u64>, n: nat)
        requires 2 <= n <= s.len()
        ensures (lv(s, n) as int) % (B * B) == s[0] as int + B * s[1] as int
        decreases n
    {
        lemma_pow2_64(); lemma2_to64();
        if n == 2 {
            lemma_lv_double(s, 2);
            assert(B * B > 0) by(nonlinear_arith);
            assert(s[0] as int + B * s[1] as int <= (B - 1) + B * (B - 1)) by(nonlinear_arith) requires 0 <= s[0] as int <= B - 1, 0 <= s[1] as int <= B - 1;
            assert((B - 1) + B * (B - 1) < B * B) by(nonlinear_arith);
            lemma_mul_is_commutative(s[1] as int, B);
            lemma_small_mod((s[0] as int + B * s[1] as int) as nat, (B * B) as nat);
        } else {
            Self::lemma_lv_low_two(s, (n - 1) as nat);
            let w = pow2(64 * (n - 1) as nat);
            lemma_pow2_adds(128, (64 * (n - 1) - 128) as nat); lemma_pow2_adds(64, 64);
            let h = pow2((64 * (n - 1) - 128) as nat);
            let t = (s[n - 1] as nat) * w;
            assert(t as int == (B * B) * ((s[n - 1] as int) * h as int)) by(nonlinear_arith) requires t == (s[n - 1] as nat) * w, w as int == (B * B) * h as int;
            assert(B * B > 0) by(nonlinear_arith);
            lemma_mod_multiples_vanish((s[n - 1] as int) * h as int, lv(s, (n - 1) as nat) as int, B * B);
        }
    }

//@ extract expanded fn try_from ctx="TryFrom<&Uint<BITS,LIMBS>>foru64" vis=none as=to_u64__try_from rewrite="-> Result < Self , Self :: Error >" => "-> Result<u64, FromUintError<u64> >" #1 rewrite="const SIGNED : bool = < u64 > :: MIN != 0 ;" => "let SIGNED: bool = u64::MIN != 0;" #1 rewrite="const CAPACITY : usize = if SIGNED { < u64 > :: BITS - 1 } else { < u64 > :: BITS } as usize ;" => "let CAPACITY: usize = if SIGNED { 63 } else { 64 };" #1 rewrite="Self :: Error :: Overflow" => "FromUintError::Overflow" #1 rewrite="as Self" => "as u64" #2 rewrite="Self :: MAX ( )" => "u64::MAX" #1
        fn to_u64__try_from(value: &Uint<BITS, LIMBS>) -> /*+*/(r:/*-*/ Result<u64, FromUintError<u64> >/*+*/)
            requires value.wf()
            ensures
                value.val() < 0x1_0000_0000_0000_0000 ==> r == Ok::<u64, FromUintError<u64>>(value.val() as u64),
                value.val() >= 0x1_0000_0000_0000_0000 ==> r == Err::<u64, FromUintError<u64>>(FromUintError::Overflow(BITS, (value.val() % 0x1_0000_0000_0000_0000) as u64, u64::MAX)),/*-*/
        {
            let SIGNED: bool = u64::MIN != 0;
            let CAPACITY: usize = if SIGNED { 63 } else { 64 };
            /*+*/proof {
                lemma2_to64(); lemma_pow2_64();
                if BITS == 0 { value.lemma_wf_lt(); } else { lemma_lv_low_limb(value.limbs@, LIMBS as nat); }
            }/*-*/
            if BITS == 0 { return Ok(0); }
            /*+*/proof {
                // bit_len <= 64  <==>  value < 2^64
                assert forall|k: nat| #[trigger] is_bit_len(value.val(), k) implies ((k > 64) == (value.val() >= 0x1_0000_0000_0000_0000)) by {
                    if value.val() != 0 {
                        if k > 64 { if k > 65 { lemma_pow2_strictly_increases(64, (k - 1) as nat); } } else { if k < 64 { lemma_pow2_strictly_increases(k, 64); } }
                    }
                }
                if value.val() < 0x1_0000_0000_0000_0000 { lemma_small_mod(value.val(), 0x1_0000_0000_0000_0000); }
            }/*-*/
            if value.bit_len() > CAPACITY {
                return Err(FromUintError::Overflow(BITS, value.limbs[0] as u64,
                            u64::MAX));
            }
            Ok(value.as_limbs()[0] as u64)
        }
//@ end

//@ extract src/from.rs fn try_from ctx="TryFrom<&Uint<BITS,LIMBS>>foru128" vis=none as=to_u128__try_from rewrite="-> Result < Self , Self :: Error >" => "-> Result<u128, FromUintError<u128> >" #1 rewrite="Self :: Error :: Overflow" => "FromUintError::Overflow" #1
        fn to_u128__try_from(value: &Uint<BITS, LIMBS>) -> /*+*/(r:/*-*/ Result<u128, FromUintError<u128> >/*+*/)
            requires value.wf()
            ensures
                (value.val() as int) < B * B ==> r == Ok::<u128, FromUintError<u128>>(value.val() as u128),
                (value.val() as int) >= B * B ==> r == Err::<u128, FromUintError<u128>>(FromUintError::Overflow(BITS, ((value.val() as int) % (B * B)) as u128, u128::MAX)),/*-*/
        {
            /*+*/proof {
                lemma2_to64(); lemma_pow2_64(); lemma_pow2_adds(64, 64);
                assert(u128::MAX as int == B * B - 1) by(compute_only);
                if BITS == 0 { value.lemma_wf_lt(); }
            }/*-*/
            if BITS == 0 {
                return Ok(0);
            }
            let mut result = value.limbs[0] as u128;
            if BITS <= 64 {
                /*+*/proof {
                    assert(LIMBS == 1);
                    lemma_lv_single(value.limbs@, 1);
                    assert((value.val() as int) < B * B) by(nonlinear_arith) requires (value.val() as int) < B, B > 1;
                }/*-*/
                return Ok(result);
            }
            /*+*/let ghost l0 = value.limbs[0]; let ghost l1 = value.limbs[1];
            proof {
                assert(LIMBS >= 2);
                assert(((l0 as u128) | ((l1 as u128) << 64)) == (l0 as u128) + (l1 as u128) * 0x1_0000_0000_0000_0000u128) by(bit_vector);
                Self::lemma_lv_low_two(value.limbs@, LIMBS as nat);
                lemma_mul_is_commutative(B, l1 as int);
                assert forall|k: nat| #[trigger] is_bit_len(value.val(), k) implies ((k > 128) == ((value.val() as int) >= B * B)) by {
                    if value.val() != 0 {
                        if k > 128 { if k > 129 { lemma_pow2_strictly_increases(128, (k - 1) as nat); } } else { if k < 128 { lemma_pow2_strictly_increases(k, 128); } }
                    }
                }
                if (value.val() as int) < B * B { lemma_small_mod(value.val(), (B * B) as nat); }
            }/*-*/
            result |= (value.limbs[1] as u128) << 64;
            if value.bit_len() > 128 {
                return Err(FromUintError::Overflow(BITS, result, u128::MAX));
            }
            Ok(result)
        }
//@ end

//@ extract src/from.rs fn try_from ctx="TryFrom<&Uint<BITS,LIMBS>>forbool" vis=none as=to_bool__try_from rewrite="-> Result < Self , Self :: Error >" => "-> Result<bool, FromUintError<bool> >" #1 rewrite="Self :: Error :: Overflow" => "FromUintError::Overflow" #1
        fn to_bool__try_from(value: &Uint<BITS, LIMBS>) -> /*+*/(r:/*-*/ Result<bool, FromUintError<bool> >/*+*/)
            requires value.wf()
            ensures
                value.val() < 2 ==> r == Ok::<bool, FromUintError<bool>>(value.val() == 1),
                value.val() >= 2 ==> r == Err::<bool, FromUintError<bool>>(FromUintError::Overflow(BITS, value.val() % 2 == 1, true)),/*-*/
        {
            /*+*/proof {
                lemma2_to64();
                if BITS == 0 { value.lemma_wf_lt(); } else { lemma_lv_low_limb(value.limbs@, LIMBS as nat); }
            }/*-*/
            if BITS == 0 {
                return Ok(false);
            }
            /*+*/proof {
                assert forall|k: nat| #[trigger] is_bit_len(value.val(), k) implies ((k > 1) == (value.val() >= 2)) by {
                    if value.val() != 0 {
                        if k > 1 { if k > 2 { lemma_pow2_strictly_increases(1, (k - 1) as nat); } }
                    }
                }
                assert(value.val() / pow2(0) == value.val()) by { assert(pow2(0) == 1); }
                if value.val() < 2 { lemma_small_mod(value.val(), B as nat); }
            }/*-*/
            if value.bit_len() > 1 {
                return Err(FromUintError::Overflow(BITS, value.bit(0), true));
            }
            Ok(value.as_limbs()[0] != 0)
        }
//@ end

//@ extract src/from.rs fn try_from ctx="TryFrom<&Uint<BITS,LIMBS>>fori128" vis=none as=to_i128__try_from rewrite="-> Result < Self , Self :: Error >" => "-> Result<i128, FromUintError<i128> >" #1 rewrite="Self :: Error :: Overflow" => "FromUintError::Overflow" #1
        fn to_i128__try_from(value: &Uint<BITS, LIMBS>) -> /*+*/(r:/*-*/ Result<i128, FromUintError<i128> >/*+*/)
            requires value.wf()
            ensures
                (value.val() as int) < (B / 2) * B ==> r == Ok::<i128, FromUintError<i128>>(value.val() as i128),
                (value.val() as int) >= (B / 2) * B ==> r == Err::<i128, FromUintError<i128>>(FromUintError::Overflow(BITS, wrap_i128((value.val() as int) % (B * B)), i128::MAX)),/*-*/
        {
            /*+*/proof {
                lemma2_to64(); lemma_pow2_64(); lemma_pow2_adds(64, 64); lemma_pow2_adds(63, 64);
                assert(i128::MAX as int == (B / 2) * B - 1) by(compute_only);
                assert(pow2(63) == 0x8000_0000_0000_0000) by { lemma2_to64(); lemma_pow2_adds(32, 31); }
                assert(pow2(63) as int == B / 2);
                assert(pow2(127) as int == (B / 2) * B);
                if BITS == 0 { value.lemma_wf_lt(); }
            }/*-*/
            if BITS == 0 {
                return Ok(0);
            }
            let mut result = value.limbs[0] as i128;
            if BITS <= 64 {
                /*+*/proof {
                    assert(LIMBS == 1);
                    lemma_lv_single(value.limbs@, 1);
                    assert((value.val() as int) < (B / 2) * B) by(nonlinear_arith) requires (value.val() as int) < B, B == 0x1_0000_0000_0000_0000;
                }/*-*/
                return Ok(result);
            }
            /*+*/let ghost l0 = value.limbs[0]; let ghost l1 = value.limbs[1];
            proof {
                assert(LIMBS >= 2);
                assert(l1 < 0x8000_0000_0000_0000u64 ==> ((l0 as i128) | ((l1 as i128) << 64)) == (l0 as i128) + (l1 as i128) * 0x1_0000_0000_0000_0000i128) by(bit_vector);
                assert(l1 >= 0x8000_0000_0000_0000u64 ==> ((l0 as i128) | ((l1 as i128) << 64)) == (l0 as i128) + ((l1 as i128) - 0x1_0000_0000_0000_0000i128) * 0x1_0000_0000_0000_0000i128) by(bit_vector);
                Self::lemma_lv_low_two(value.limbs@, LIMBS as nat);
                lemma_mul_is_commutative(B, l1 as int);
                let low = (value.val() as int) % (B * B);
                assert(low == l0 as int + B * l1 as int);
                assert(l1 as int >= B / 2 ==> (l0 as int + (l1 as int - B) * B == low - B * B)) by(nonlinear_arith) requires low == l0 as int + B * l1 as int;
                assert((l1 as int) < B / 2 ==> low < (B / 2) * B) by(nonlinear_arith) requires low == l0 as int + B * l1 as int, 0 <= l0 as int, (l0 as int) < B, B == 0x1_0000_0000_0000_0000;
                assert(l1 as int >= B / 2 ==> low >= (B / 2) * B) by(nonlinear_arith) requires low == l0 as int + B * l1 as int, 0 <= l0 as int, B == 0x1_0000_0000_0000_0000;
                assert forall|k: nat| #[trigger] is_bit_len(value.val(), k) implies ((k > 127) == ((value.val() as int) >= (B / 2) * B)) by {
                    if value.val() != 0 {
                        if k > 127 { if k > 128 { lemma_pow2_strictly_increases(127, (k - 1) as nat); } } else { if k < 127 { lemma_pow2_strictly_increases(k, 127); } }
                    }
                }
                if (value.val() as int) < (B / 2) * B {
                    assert((value.val() as int) < B * B) by(nonlinear_arith) requires (value.val() as int) < (B / 2) * B, B == 0x1_0000_0000_0000_0000;
                    lemma_small_mod(value.val(), (B * B) as nat);
                }
            }/*-*/
            result |= (value.limbs[1] as i128) << 64;
            if value.bit_len() > 127 {
                return Err(FromUintError::Overflow(BITS, result, i128::MAX));
            }
            Ok(result)
        }
//@ end
}


// `.and_then(|n| Err(ToUintError::ValueTooLarge(BITS, n)))`  (declared rewrite of the closure form: and_then's definition)
pub trait AndThenTooLarge<const BITS: usize, const LIMBS: usize> { fn and_then_too_large(self) -> Result<Uint<BITS, LIMBS>, ToUintError<Uint<BITS, LIMBS>>>; }
impl<const BITS: usize, const LIMBS: usize> AndThenTooLarge<BITS, LIMBS> for Result<Uint<BITS, LIMBS>, ToUintError<Uint<BITS, LIMBS>>> {
    fn and_then_too_large(self) -> (r: Result<Uint<BITS, LIMBS>, ToUintError<Uint<BITS, LIMBS>>>)
        ensures r == (match self { Ok(n) => Err(ToUintError::ValueTooLarge(BITS, n)), Err(e) => Err(e) })
    {
        match self { Ok(n) => Err(ToUintError::ValueTooLarge(BITS, n)), Err(e) => Err(e) }
    }
}

} // verus!
fn main() {}

// unit addnx1: add_nx1 (word added into a limb slice with early exit) - C15, callee of addmul (C02)
#![allow(non_snake_case)]
use vstd::prelude::*;
use vstd::arithmetic::power2::*;
use vstd::arithmetic::mul::*;
use vstd::arithmetic::div_mod::*;
use vstd::bits::*;
use core::cmp::Ordering;
use vstd::std_specs::cmp::*;
verus! {
//@ include lib/base.rs
//@ include lib/lvr.rs

//@ extract src/algorithms/mod.rs trait DoubleWord
pub trait DoubleWord<T>: Sized + Copy {
    fn join(high: T, low: T) -> Self;
    fn add(a: T, b: T) -> Self;
    fn mul(a: T, b: T) -> Self;
    fn muladd(a: T, b: T, c: T) -> Self;
    fn muladd2(a: T, b: T, c: T, d: T) -> Self;
    fn high(self) -> T;
    fn low(self) -> T;
    fn split(self) -> (T, T);
}
//@ end
impl DoubleWord<u64> for u128 {
//@ import kernels join
//@ import kernels add
//@ import kernels mul
//@ import kernels muladd
//@ import kernels muladd2
//@ import kernels high
//@ import kernels low
//@ import kernels split
}

//@ extract src/algorithms/mul.rs fn add_nx1 rewrite="for lhs in lhs {" => "for i in 0..lhs.len() {" #1 rewrite="* lhs" => "lhs[i]" #2
// declared rewrite: iteration over the slice by mutable reference is written as iteration over its indices (`for lhs in lhs`
// -> `for i in 0..lhs.len()`, `*lhs` -> `lhs[i]`): with the early `return 0` inside the loop Verus cannot resolve the
// final value of the elements the dropped iterator has not visited.
/*+*/#[verifier::loop_isolation(false)]/*-*/
pub fn add_nx1(lhs: &mut [u64], a: u64) -> /*+*/(r:/*-*/ u64/*+*/)
    ensures final(lhs).len() == old(lhs).len(), old(lhs).len() > 0 ==> r <= 1,
        lvr(final(lhs)@, 0, old(lhs).len() as int) + r as int * bp(old(lhs).len() as int)
            == lvr(old(lhs)@, 0, old(lhs).len() as int) + a as int/*-*/
{ let mut a = a ;
    /*+*/let ghost n = lhs.len() as int;
    let ghost src = lhs@;
    let ghost a0 = a;/*-*/
    if a == 0 {
        /*+*/proof { assert(0 * bp(n) == 0); }/*-*/
        return 0;
    }
    /*+*/proof { assert(bp(0) == 1); assert(a as int * bp(0) == a as int) by(nonlinear_arith) requires bp(0) == 1; }/*-*/
    for i in /*+*/iter:/*-*/ 0..lhs.len()
        /*+*/invariant
            iter.seq().len() == n, lhs.len() == n, n == src.len(), src == old(lhs)@,
            forall|j: int| i <= j < n ==> lhs@[j] == src[j],
            a != 0, i > 0 ==> a == 1,
            lvr(lhs@, 0, i as int) + a as int * bp(i as int) == lvr(src, 0, i as int) + a0 as int,/*-*/
    {
        /*+*/let ghost prev = lhs@;
        let ghost c0 = a;/*-*/
        let ( t0_0 , t0_1 ) = u128::add(lhs[i], a).split();lhs[i] = t0_0 ; a = t0_1 ;
        /*+*/proof {
            let w = bp(i as int);
            lemma_lvr_ext(prev, lhs@, 0, i as int);
            lemma_lvr_push(lhs@, 0, i as int);
            lemma_lvr_push(src, 0, i as int);
            assert(bp(i as int + 1) == B * w);
            assert(w * (t0_0 as int) + (a as int) * (B * w) == w * (src[i as int] as int) + (c0 as int) * w) by(nonlinear_arith)
                requires t0_0 as int + a as int * B == src[i as int] as int + c0 as int;
            assert(lvr(lhs@, 0, i as int + 1) + a as int * bp(i as int + 1) == lvr(src, 0, i as int + 1) + a0 as int);
            assert(forall|j: int| i < j < n ==> lhs@[j] == src[j]);
        }/*-*/
        if a == 0 {
            /*+*/proof {
                assert(a as int * bp(i as int + 1) == 0) by(nonlinear_arith) requires a == 0;
                lemma_lvr_ext(lhs@, src, i as int + 1, n);
                lemma_lvr_split(lhs@, 0, i as int + 1, n);
                lemma_lvr_split(src, 0, i as int + 1, n);
                assert(0 * bp(n) == 0);
                assert(lvr(lhs@, i as int + 1, n) == lvr(src, i as int + 1, n));
                assert(lvr(lhs@, 0, i as int + 1) == lvr(src, 0, i as int + 1) + a0 as int);
                assert(lvr(lhs@, 0, n) == lvr(src, 0, n) + a0 as int);
            }/*-*/
            return 0;
        }
    }
    a
}
//@ end
}
fn main() {}

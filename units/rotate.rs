// unit rotate: src/bits.rs — rotate_left, rotate_right, arithmetic_shr as statements about every bit of the result, for all widths and
// all amounts, over the shift / or operators (whose contracts are proved as methods in units shifts, bits, forward_shift)  (C05)
#![allow(non_snake_case)]
use vstd::prelude::*;
use vstd::arithmetic::power::*;
use vstd::arithmetic::power2::*;
use vstd::arithmetic::mul::*;
use vstd::arithmetic::div_mod::*;
use vstd::bits::*;
use vstd::std_specs::cmp::*;
use vstd::std_specs::ops::*;
verus! {
//@ include lib/base.rs

//@ extract src/lib.rs struct Uint
pub struct Uint<const BITS: usize, const LIMBS: usize> { pub
    limbs: [u64; LIMBS],
}
//@ end

//@ include lib/uint_spec.rs
//@ include lib/uint_ops.rs

// source bit of a left rotation by s on a word of `bits` bits: (j - s) mod bits
pub open spec fn rot_src(j: nat, s: int, bits: int) -> nat { ((j + bits - s) % bits) as nat }

// bit i of the binary expansion of v
pub open spec fn vbit(v: nat, i: nat) -> bool { (v / pow2(i)) % 2 == 1 }

pub proof fn lemma_high_bit_zero(v: nat, i: nat)
    requires v < pow2(i)
    ensures !vbit(v, i)
{
    lemma_pow2_pos(i);
    lemma_basic_div(v as int, pow2(i) as int);
}
// bits of floor(v / 2^t)
pub proof fn lemma_bit_shr(v: nat, t: nat, j: nat)
    ensures vbit(v / pow2(t), j) == vbit(v, j + t)
{
    lemma_pow2_pos(t); lemma_pow2_pos(j); lemma_pow2_adds(t, j);
    lemma_div_denominator(v as int, pow2(t) as int, pow2(j) as int);
}
// bits of v * 2^s
pub proof fn lemma_bit_shl(v: nat, s: nat, j: nat)
    ensures vbit(v * pow2(s), j) == (j >= s && vbit(v, (j - s) as nat))
{
    lemma_pow2_pos(s); lemma_pow2_pos(j);
    if j >= s {
        let d = (j - s) as nat;
        lemma_pow2_adds(s, d); lemma_pow2_pos(d);
        // (v * 2^s) / (2^s * 2^d) == v / 2^d
        lemma_mul_is_commutative(v as int, pow2(s) as int);
        lemma_div_denominator((pow2(s) * v) as int, pow2(s) as int, pow2(d) as int);
        lemma_div_multiples_vanish(v as int, pow2(s) as int);
        assert((pow2(s) * v) / pow2(s) == v) by { lemma_mul_is_commutative(pow2(s) as int, v as int); };
    } else {
        // v * 2^s == 2^j * (2 * (v * 2^(s-j-1))): the quotient by 2^j is even
        let d = (s - j - 1) as nat;
        lemma_pow2_adds(j, (s - j) as nat); lemma_pow2_adds(1, d); lemma2_to64();
        let h = pow2(d);
        assert(v * pow2(s) == pow2(j) * (2 * (v * h))) by(nonlinear_arith) requires pow2(s) == pow2(j) * pow2((s - j) as nat), pow2((s - j) as nat) == 2 * h;
        lemma_div_multiples_vanish((2 * (v * h)) as int, pow2(j) as int);
        assert((pow2(j) * (2 * (v * h))) / pow2(j) == 2 * (v * h)) by { lemma_mul_is_commutative(pow2(j) as int, (2 * (v * h)) as int); };
        lemma_mod_multiples_basic((v * h) as int, 2);
        assert((2 * (v * h)) % 2 == 0) by { lemma_mul_is_commutative(2, (v * h) as int); };
    }
}
// reduction modulo 2^b keeps the bits below b and clears the others
pub proof fn lemma_bit_mod(x: nat, b: nat, j: nat)
    ensures vbit(x % pow2(b), j) == (j < b && vbit(x, j))
{
    lemma_pow2_pos(b); lemma_pow2_pos(j);
    let m = pow2(b);
    lemma_mod_bound(x as int, m as int);
    if j >= b {
        if j > b { lemma_pow2_strictly_increases(b, j); }
        lemma_high_bit_zero(x % m, j);
    } else {
        // x == m*q + r with m == 2^j * 2^(b-j): x / 2^j == 2^(b-j)*q + r / 2^j, and 2^(b-j) is even
        let d = (b - j) as nat;
        lemma_pow2_adds(j, d); lemma_pow2_adds(1, (d - 1) as nat); lemma2_to64();
        let q = x / m; let r = x % m; let pj = pow2(j); let pd = pow2(d); let h = pow2((d - 1) as nat);
        lemma_fundamental_div_mod(x as int, m as int);
        lemma_fundamental_div_mod(r as int, pj as int);
        let rq = r / pj; let rr = r % pj;
        lemma_mod_bound(r as int, pj as int);
        assert(x == pj * (pd * q + rq) + rr) by(nonlinear_arith) requires x == m * q + r, m == pj * pd, r == pj * rq + rr;
        lemma_fundamental_div_mod_converse(x as int, pj as int, (pd * q + rq) as int, rr as int);
        assert(pd * q == 2 * (h * q)) by(nonlinear_arith) requires pd == 2 * h;
        lemma_mod_multiples_vanish((h * q) as int, rq as int, 2);
        assert((2 * (h * q) + rq) % 2 == rq % 2);
    }
}

// ASSUMED operator contracts, stated per bit (label A): `<<` by usize (forward_shift: forwards to wrapping_shl; shifts: wrapping_shl is
// value * 2^n mod 2^BITS) and `|`, `|=` (bits: every bit of the result of |= is the or of the operand bits; the other shapes forward)
impl<const BITS: usize, const LIMBS: usize> BitOrSpecImpl<Uint<BITS, LIMBS>> for Uint<BITS, LIMBS> {
    open spec fn obeys_bitor_spec() -> bool { false }
    open spec fn bitor_req(self, rhs: Uint<BITS, LIMBS>) -> bool { self.wf() && rhs.wf() }
    open spec fn bitor_spec(self, rhs: Uint<BITS, LIMBS>) -> Uint<BITS, LIMBS> { self }
}
impl<const BITS: usize, const LIMBS: usize> core::ops::BitOr<Uint<BITS, LIMBS>> for Uint<BITS, LIMBS> {
    type Output = Uint<BITS, LIMBS>;
    #[verifier::external_body]
    fn bitor(self, rhs: Uint<BITS, LIMBS>) -> (r: Uint<BITS, LIMBS>)
        ensures r.wf(), forall|j: nat| vbit(r.val(), j) == (vbit(self.val(), j) || vbit(rhs.val(), j))
    { unimplemented!() }
}
impl<const BITS: usize, const LIMBS: usize> BitOrAssignSpecImpl<Uint<BITS, LIMBS>> for Uint<BITS, LIMBS> {
    open spec fn obeys_bitor_assign_spec() -> bool { false }
    open spec fn bitor_assign_req(&self, rhs: Uint<BITS, LIMBS>) -> bool { self.wf() && rhs.wf() }
    open spec fn bitor_assign_spec(&self, rhs: Uint<BITS, LIMBS>) -> &Self { self }
}
impl<const BITS: usize, const LIMBS: usize> core::ops::BitOrAssign<Uint<BITS, LIMBS>> for Uint<BITS, LIMBS> {
    #[verifier::external_body]
    fn bitor_assign(&mut self, rhs: Uint<BITS, LIMBS>)
        ensures final(self).wf(), forall|j: nat| vbit(final(self).val(), j) == (vbit(old(self).val(), j) || vbit(rhs.val(), j))
    { unimplemented!() }
}

impl<const BITS: usize, const LIMBS: usize> Uint<BITS, LIMBS> {
//@ import core ZERO
//@ import core MAX
//@ import bits bit

    // bits of the two shifted copies
    pub proof fn lemma_shl_bits(v: nat, s: nat, j: nat)
        ensures vbit((v * pow2(s)) % pow2(BITS as nat), j) == (s <= j < BITS && vbit(v, (j - s) as nat))
    {
        lemma_bit_mod(v * pow2(s), BITS as nat, j);
        lemma_bit_shl(v, s, j);
    }

//@ extract src/bits.rs fn rotate_left
    pub fn rotate_left(self, rhs: usize) -> /*+*/(r:/*-*/ Self/*+*/)
        requires self.wf(), BITS <= usize::MAX - 63
        ensures r.wf(),
            BITS == 0 ==> r.val() == 0,
            // the cyclic permutation: bit j of the result is bit (j - rhs) mod BITS of the value
            forall|j: nat| j < BITS ==> vbit(r.val(), j) == vbit(self.val(), rot_src(j, (rhs % BITS) as int, BITS as int)),/*-*/
    {
        if BITS == 0 {
            return Self::ZERO();
        }
        /*+*/let ghost s0 = rhs;/*-*/
        let rhs = rhs % BITS;
        /*+*/let ghost v = self.val();
        proof {
            self.lemma_wf_lt();
            assert forall|j: nat| j < BITS implies
                ((rhs <= j && vbit(v, (j - rhs) as nat)) || vbit(v, j + (BITS - rhs) as nat)) == #[trigger] vbit(v, rot_src(j, rhs as int, BITS as int)) by {
                let t = (j + BITS - rhs) as int;
                if j >= rhs {
                    // t = BITS + (j - rhs): t mod BITS = j - rhs; the other bit index is >= BITS
                    lemma_fundamental_div_mod_converse(t, BITS as int, 1, (j - rhs) as int);
                    if j + (BITS - rhs) > BITS { lemma_pow2_strictly_increases(BITS as nat, j + (BITS - rhs) as nat); }
                    lemma_high_bit_zero(v, j + (BITS - rhs) as nat);
                } else {
                    lemma_small_mod(t as nat, BITS as nat);
                }
            }
            assert forall|j: nat| j < BITS implies #[trigger] vbit((v * pow2(rhs as nat)) % pow2(BITS as nat), j) == (rhs <= j && vbit(v, (j - rhs) as nat)) by {
                Self::lemma_shl_bits(v, rhs as nat, j);
            }
            assert forall|j: nat| #[trigger] vbit(v / pow2((BITS - rhs) as nat), j) == vbit(v, j + (BITS - rhs) as nat) by {
                lemma_bit_shr(v, (BITS - rhs) as nat, j);
            }
        }/*-*/
        (self << rhs) | (self >> (BITS - rhs))
    }
//@ end

//@ extract src/bits.rs fn rotate_right
    pub fn rotate_right(self, rhs: usize) -> /*+*/(r:/*-*/ Self/*+*/)
        requires self.wf(), BITS <= usize::MAX - 63
        ensures r.wf(),
            BITS == 0 ==> r.val() == 0,
            forall|j: nat| j < BITS ==> vbit(r.val(), j) == vbit(self.val(), ((j + rhs % BITS) % (BITS as int)) as nat),/*-*/
    {
        if BITS == 0 {
            return Self::ZERO();
        }
        let rhs = rhs % BITS;
        /*+*/proof {
            assert forall|j: nat| j < BITS implies #[trigger] rot_src(j, ((BITS - rhs) as int) % (BITS as int), BITS as int) == ((j + rhs) % (BITS as int)) as nat by {
                if rhs == 0 {
                    lemma_mod_self_0(BITS as int);
                    lemma_mod_add_multiples_vanish(j as int, BITS as int);
                } else {
                    lemma_small_mod((BITS - rhs) as nat, BITS as nat);
                }
            }
        }/*-*/
        self.rotate_left(BITS - rhs)
    }
//@ end

//@ extract src/bits.rs fn arithmetic_shr
    pub fn arithmetic_shr(self, rhs: usize) -> /*+*/(r:/*-*/ Self/*+*/)
        requires self.wf(), BITS <= usize::MAX - 63
        ensures r.wf(),
            BITS == 0 ==> r.val() == 0,
            // bit j of the result is bit j + rhs of the value, or the sign bit once j + rhs leaves the word
            forall|j: nat| j < BITS ==> vbit(r.val(), j) == (if j + rhs < BITS { vbit(self.val(), (j + rhs) as nat) } else { vbit(self.val(), (BITS - 1) as nat) }),/*-*/
    {
        if BITS == 0 {
            return Self::ZERO();
        }
        /*+*/let ghost v = self.val();/*-*/
        let sign = self.bit(BITS - 1);
        let mut r = self >> rhs;
        /*+*/proof {
            self.lemma_wf_lt();
            assert forall|j: nat| (#[trigger] vbit(v / pow2(rhs as nat), j) == vbit(v, (j + rhs) as nat)) && (j + rhs >= BITS ==> !vbit(v / pow2(rhs as nat), j)) by {
                lemma_bit_shr(v, rhs as nat, j);
                if j + rhs >= BITS {
                    if j + rhs > BITS { lemma_pow2_strictly_increases(BITS as nat, (j + rhs) as nat); }
                    lemma_high_bit_zero(v, (j + rhs) as nat);
                }
            }
        }/*-*/
        if sign {
            /*+*/let ghost n = if rhs >= BITS { 0 } else { (BITS - rhs) as nat };
            proof {
                // MAX << n has exactly the bits n..BITS
                let mx = (pow2(BITS as nat) - 1) as nat;
                assert forall|j: nat| j < BITS implies #[trigger] vbit((mx * pow2(n)) % pow2(BITS as nat), j) == (n <= j) by {
                    Self::lemma_shl_bits(mx, n, j);
                    if j >= n { Self::lemma_ones_bit((j - n) as nat); }
                }
            }
            let ghost r_before = r;/*-*/
            r |= Self::MAX() << BITS.saturating_sub(rhs);
            /*+*/proof {
                assert forall|j: nat| j < BITS implies vbit(r.val(), j) == (vbit(r_before.val(), j) || n <= j) by {
                    let mx = (pow2(BITS as nat) - 1) as nat;
                    assert(vbit((mx * pow2(n)) % pow2(BITS as nat), j) == (n <= j));
                }
            }/*-*/
        }
        r
    }
//@ end

    // every bit below BITS of 2^BITS - 1 is set
    pub proof fn lemma_ones_bit(i: nat)
        requires i < BITS
        ensures vbit((pow2(BITS as nat) - 1) as nat, i)
    {
        let d = (BITS - i) as nat;
        lemma_pow2_adds(i, d); lemma_pow2_pos(i); lemma_pow2_pos(d);
        lemma_pow2_adds(1, (d - 1) as nat); lemma2_to64();
        let pi = pow2(i) as int; let pd = pow2(d) as int; let h = pow2((d - 1) as nat) as int;
        // 2^BITS - 1 == 2^i * (2^d - 1) + (2^i - 1)
        assert(pow2(BITS as nat) as int - 1 == pi * (pd - 1) + (pi - 1)) by(nonlinear_arith) requires pow2(BITS as nat) as int == pi * pd;
        lemma_fundamental_div_mod_converse(pow2(BITS as nat) as int - 1, pi, pd - 1, pi - 1);
        assert(pd - 1 == 2 * (h - 1) + 1);
        lemma_fundamental_div_mod_converse(pd - 1, 2, h - 1, 1);
    }
}

} // verus!
fn main() {}

// unit divd: src/algorithms/div/mod.rs — the `div` dispatcher (trimming, trivial cases, dispatch to the kernels)  (C14, C03)
#![allow(non_snake_case)]
use vstd::prelude::*;
use vstd::arithmetic::power2::*;
use vstd::arithmetic::mul::*;
use vstd::arithmetic::div_mod::*;
use vstd::bits::*;
verus! {
//@ include lib/base.rs
//@ include lib/lvr.rs

//@ include lib/divspec.rs
//@ import knuth div_nxm
//@ extract src/algorithms/mod.rs trait DoubleWord
pub trait DoubleWord<T>: Sized + Copy {
    fn join(high: T, low: T) -> Self;
    fn add(a: T, b: T) -> Self;
    fn mul(a: T, b: T) -> Self;
    fn muladd(a: T, b: T, c: T) -> Self;
    fn muladd2(a: T, b: T, c: T, d: T) -> Self;
    fn high(self) -> T;
    fn low(self) -> T;
    fn split(self) -> (T, T);
}
//@ end
impl DoubleWord<u64> for u128 {
//@ import kernels join
//@ import kernels add
//@ import kernels mul
//@ import kernels muladd
//@ import kernels muladd2
//@ import kernels high
//@ import kernels low
//@ import kernels split
}
// ASSUMED (label A): un-normalised n-by-1 / n-by-2 drivers (raw get_unchecked accesses; not yet under proof)
#[verifier::external_body]
pub fn div_nx1(limbs: &mut [u64], divisor: u64) -> (r: u64)
    requires divisor != 0, old(limbs).len() >= 1, old(limbs)@[old(limbs).len() - 1] != 0
    ensures final(limbs).len() == old(limbs).len(), r < divisor,
        lvr(old(limbs)@, 0, old(limbs).len() as int) == lvr(final(limbs)@, 0, old(limbs).len() as int) * divisor as int + r as int
{ unimplemented!() }
#[verifier::external_body]
pub fn div_nx2(limbs: &mut [u64], divisor: u128) -> (r: u128)
    requires divisor as int >= B, old(limbs).len() >= 1, old(limbs)@[old(limbs).len() - 1] != 0
    ensures final(limbs).len() == old(limbs).len(), r < divisor,
        lvr(old(limbs)@, 0, old(limbs).len() as int) == lvr(final(limbs)@, 0, old(limbs).len() as int) * divisor as int + r as int
{ unimplemented!() }

// ASSUMED (label A) for now: the dispatcher's contract (its kernels div_nxm / div_2x1 / div_3x2 / reciprocal_2 are proved
// in units knuth and div_small; the trimming and dispatch logic of `div` itself is not yet under proof).
//@ extract src/algorithms/div/mod.rs fn div
/*+*/#[verifier::external_body]/*-*/
pub fn div(numerator: &mut [u64], divisor: &mut [u64])
    /*+*/requires lvr(old(divisor)@, 0, old(divisor).len() as int) != 0
    ensures
        final(numerator).len() == old(numerator).len(),
        final(divisor).len() == old(divisor).len(),
        lvr(old(numerator)@, 0, old(numerator).len() as int)
            == lvr(final(numerator)@, 0, old(numerator).len() as int) * lvr(old(divisor)@, 0, old(divisor).len() as int)
               + lvr(final(divisor)@, 0, old(divisor).len() as int),
        0 <= lvr(final(divisor)@, 0, old(divisor).len() as int) < lvr(old(divisor)@, 0, old(divisor).len() as int),/*-*/
{
    let i = divisor
        .iter()
        .rposition(|&x| x != 0)
        .expect("Divisor is zero");
    let divisor = &mut divisor[..=i];
    vassert (!divisor.is_empty() );
    vassert (divisor.last() != Some(&0) );
    let numerator = if let Some(i) = numerator.iter().rposition(|&n| n != 0) {
        &mut numerator[..=i]
    } else {
        divisor.fill(0);
        return;
    };
    vassert (!numerator.is_empty() );
    vassert (*numerator.last().unwrap() != 0 );
    if numerator.len() < divisor.len() {
        let (remainder, padding) = divisor.split_at_mut(numerator.len());
        remainder.copy_from_slice(numerator);
        padding.fill(0);
        numerator.fill(0);
        return;
    }
    vassert (numerator.len() >= divisor.len() );
    if divisor.len() <= 2 {
        if divisor.len() == 1 {
            if numerator.len() == 1 {
                let q = numerator[0] / divisor[0];
                let r = numerator[0] % divisor[0];
                numerator[0] = q;
                divisor[0] = r;
            } else {
                divisor[0] = div_nx1(numerator, divisor[0]);
            }
        } else {
            let d = u128::join(divisor[1], divisor[0]);
            let remainder = div_nx2(numerator, d);
            divisor[0] = remainder.low();
            divisor[1] = remainder.high();
        }
    } else {
        div_nxm(numerator, divisor);
    }
}
//@ end
} // verus!
fn main() {}

// unit divd: src/algorithms/div/mod.rs — the `div` dispatcher (trimming, trivial cases, dispatch to the kernels)  (C14, C03)
#![allow(non_snake_case)]
use vstd::prelude::*;
use vstd::arithmetic::power2::*;
use vstd::arithmetic::mul::*;
use vstd::arithmetic::div_mod::*;
use vstd::bits::*;
verus! {
//@ include lib/base.rs
//@ include lib/lvr.rs
//@ include lib/divspec.rs
//@ import knuth div_nxm
//@ import div_small div_nx1
//@ import div_small div_nx2
//@ extract src/algorithms/mod.rs trait DoubleWord
pub trait DoubleWord<T>: Sized + Copy {
    fn join(high: T, low: T) -> Self;
    fn add(a: T, b: T) -> Self;
    fn mul(a: T, b: T) -> Self;
    fn muladd(a: T, b: T, c: T) -> Self;
    fn muladd2(a: T, b: T, c: T, d: T) -> Self;
    fn high(self) -> T;
    fn low(self) -> T;
    fn split(self) -> (T, T);
}
//@ end
impl DoubleWord<u64> for u128 {
//@ import kernels join
//@ import kernels add
//@ import kernels mul
//@ import kernels muladd
//@ import kernels muladd2
//@ import kernels high
//@ import kernels low
//@ import kernels split
}

pub assume_specification<T: Clone> [<[T]>::fill] (s: &mut [T], value: T)
    ensures final(s).len() == old(s).len(), forall|i: int| 0 <= i < old(s).len() ==> final(s)@[i] == value;

// N14: `s.iter().rposition(|&x| x != 0)` is routed through this wrapper whose body IS that expression.
// ASSUMED (label A, std's Iterator::rposition): last index holding a non-zero limb, or None. Kani: c14::c14_rposition_*.
#[verifier::external_body]
pub fn rposition_nonzero(s: &[u64]) -> (r: Option<usize>)
    ensures (match r {
        Some(i) => i < s.len() && s@[i as int] != 0 && (forall|j: int| i < j < s.len() ==> s@[j] == 0),
        None => forall|j: int| 0 <= j < s.len() ==> s@[j] == 0 })
{ s.iter().rposition(|&x| x != 0) }

// a number whose top limb is non-zero is at least B^(n-1)
pub proof fn lemma_top_nonzero(s: Seq<u64>, n: int)
    requires 1 <= n <= s.len(), s[n - 1] != 0
    ensures lvr(s, 0, n) >= bp(n - 1), lvr(s, 0, n) >= 1
{
    lemma_lvr_push(s, 0, n - 1);
    lemma_lvr_bound(s, 0, n - 1);
    lemma_bp_pos(n - 1);
    assert(bp(n - 1) * s[n - 1] as int >= bp(n - 1)) by(nonlinear_arith) requires s[n - 1] as int >= 1, bp(n - 1) >= 1;
}
pub proof fn lemma_bp_mono(a: int, b: int)
    requires 0 <= a <= b
    ensures bp(a) <= bp(b)
{
    lemma_bp_add(a, b - a); lemma_bp_pos(b - a); lemma_bp_pos(a);
    assert(bp(a) * bp(b - a) >= bp(a)) by(nonlinear_arith) requires bp(b - a) >= 1, bp(a) >= 1;
}
// full-length value of a slice whose tail beyond k is zero
pub proof fn lemma_trim(s: Seq<u64>, k: int, n: int)
    requires 0 <= k <= n <= s.len(), forall|j: int| k <= j < n ==> s[j] == 0
    ensures lvr(s, 0, n) == lvr(s, 0, k)
{
    lemma_lvr_trailing_zeros(s, 0, k, n);
}
// the result of a kernel on the trimmed prefix, lifted to the full slice (tail unchanged and zero)
pub proof fn lemma_lift_prefix(full_old: Seq<u64>, full_fin: Seq<u64>, k: int, n: int)
    requires 0 <= k <= n, full_old.len() == n, full_fin.len() == n,
        forall|j: int| k <= j < n ==> full_old[j] == 0,
        forall|j: int| k <= j < n ==> full_fin[j] == full_old[j],
    ensures lvr(full_old, 0, n) == lvr(full_old.subrange(0, k), 0, k), lvr(full_fin, 0, n) == lvr(full_fin.subrange(0, k), 0, k)
{
    lemma_trim(full_old, k, n); lemma_trim(full_fin, k, n);
    lemma_lvr_shift(full_old, full_old.subrange(0, k), 0, k);
    lemma_lvr_shift(full_fin, full_fin.subrange(0, k), 0, k);
}

//@ extract src/algorithms/div/mod.rs fn div rewrite="divisor . iter ( ) . rposition ( | & x | x != 0 )" => "rposition_nonzero ( divisor )" #1 rewrite="numerator . iter ( ) . rposition ( | & n | n != 0 )" => "rposition_nonzero ( numerator )" #1 rewrite="vassert ( divisor . last ( ) != Some ( & 0 ) ) ;" => "vassert ( divisor . len ( ) == 0 || divisor [ divisor . len ( ) - 1 ] != 0 ) ;" #1
pub fn div(numerator: &mut [u64], divisor: &mut [u64])
    /*+*/requires lvr(old(divisor)@, 0, old(divisor).len() as int) != 0
    ensures
        final(numerator).len() == old(numerator).len(),
        final(divisor).len() == old(divisor).len(),
        lvr(old(numerator)@, 0, old(numerator).len() as int)
            == lvr(final(numerator)@, 0, old(numerator).len() as int) * lvr(old(divisor)@, 0, old(divisor).len() as int)
               + lvr(final(divisor)@, 0, old(divisor).len() as int),
        0 <= lvr(final(divisor)@, 0, old(divisor).len() as int) < lvr(old(divisor)@, 0, old(divisor).len() as int),/*-*/
{
    /*+*/let ghost dold = divisor@; let ghost dfin = final(divisor)@; let ghost ld = divisor.len() as int;
    let ghost nold = numerator@; let ghost nfin = final(numerator)@; let ghost ln = numerator.len() as int;
    proof {
        axiom_slice_len_stable(divisor); axiom_slice_len_stable(numerator);
        // a non-zero value has a non-zero limb
        if forall|j: int| 0 <= j < ld ==> dold[j] == 0 { lemma_lvr_zero(dold, 0, ld); }
    }/*-*/
    let i = rposition_nonzero ( divisor )
        .expect("Divisor is zero");
    /*+*/let ghost kd = i as int + 1;/*-*/
    let divisor = &mut divisor[..=i];
    /*+*/let ghost d1 = divisor@;           // trimmed divisor, old contents
    proof {
        assert(d1 == dold.subrange(0, kd));
        assert(final(divisor)@ == dfin.subrange(0, kd));
        assert(forall|j: int| kd <= j < ld ==> dfin[j] == dold[j]);
        lemma_trim(dold, kd, ld);
        lemma_lvr_shift(dold, d1, 0, kd);
        lemma_top_nonzero(d1, kd);
    }
    let ghost dd = lvr(d1, 0, kd);/*-*/     // == value of the whole divisor
    vassert (!divisor.is_empty() );
    vassert ( divisor . len ( ) == 0 || divisor [ divisor . len ( ) - 1 ] != 0 ) ;
    /*+*/let ghost kn: int = 0;/*-*/
    let numerator = if let Some(i) = rposition_nonzero ( numerator ) {
        &mut numerator[..=i]
    } else {
        divisor.fill(0);
        /*+*/proof {
            // numerator is zero and stays; remainder is zero
            assert(nfin == nold);
            lemma_lvr_zero(nold, 0, ln);
            assert forall|j: int| 0 <= j < ld implies dfin[j] == 0 by { if j < kd { assert(dfin.subrange(0, kd)[j] == 0); } }
            lemma_lvr_zero(dfin, 0, ld);
            assert(0 * lvr(dold, 0, ld) == 0) by(nonlinear_arith);
        }/*-*/
        return;
    };
    /*+*/let ghost kn = numerator.len() as int;
    let ghost n1 = numerator@;
    proof {
        assert(n1 == nold.subrange(0, kn));
        assert(final(numerator)@ == nfin.subrange(0, kn));
        assert(forall|j: int| kn <= j < ln ==> nfin[j] == nold[j]);
        lemma_trim(nold, kn, ln);
        lemma_lvr_shift(nold, n1, 0, kn);
        lemma_top_nonzero(n1, kn);
    }
    let ghost nn = lvr(n1, 0, kn);/*-*/
    vassert (!numerator.is_empty() );
    vassert (*numerator.last().unwrap() != 0 );
    if numerator.len() < divisor.len() {
        /*+*/let ghost pfd = final(divisor)@;/*-*/
        let (remainder, padding) = divisor.split_at_mut(numerator.len());
        remainder.copy_from_slice(numerator);
        padding.fill(0);
        numerator.fill(0);
        /*+*/proof {
            // q = 0, r = N < B^kn <= B^(kd-1) <= D
            let fd = pfd;
            assert(fd.len() == kd);
            assert(forall|j: int| 0 <= j < kn ==> fd[j] == n1[j]);
            assert(forall|j: int| kn <= j < kd ==> fd[j] == 0);
            assert(forall|j: int| 0 <= j < kn ==> nfin.subrange(0, kn)[j] == 0);
            lemma_lvr_zero(nfin.subrange(0, kn), 0, kn);
            lemma_lift_prefix(nold, nfin, kn, ln);
            lemma_trim(fd, kn, kd);
            lemma_lvr_ext(fd, n1, 0, kn);
            lemma_lvr_bound(n1, 0, kn);
            lemma_bp_mono(kn, kd - 1);
            lemma_lift_prefix(dold, dfin, kd, ld);
            assert(0 * lvr(dold, 0, ld) == 0) by(nonlinear_arith);
        }/*-*/
        return;
    }
    vassert (numerator.len() >= divisor.len() );
    /*+*/let ghost pfd = final(divisor)@; let ghost pfn = final(numerator)@;/*-*/
    if divisor.len() <= 2 {
        if divisor.len() == 1 {
            if numerator.len() == 1 {
                let q = numerator[0] / divisor[0];
                let r = numerator[0] % divisor[0];
                /*+*/proof {
                    let a = n1[0] as int; let b = d1[0] as int;
                    lemma_fundamental_div_mod(a, b); lemma_mod_bound(a, b);
                    assert(lvr(n1, 0, 1) == a) by { assert(lvr(n1, 1, 1) == 0); assert(B * 0 == 0); }
                    assert(lvr(d1, 0, 1) == b) by { assert(lvr(d1, 1, 1) == 0); assert(B * 0 == 0); }
                    assert(a == (a / b) * b + a % b) by(nonlinear_arith) requires a == b * (a / b) + a % b;
                }/*-*/
                numerator[0] = q;
                divisor[0] = r;
                /*+*/proof {
                    assert(lvr(numerator@, 0, 1) == q as int) by { assert(lvr(numerator@, 1, 1) == 0); assert(B * 0 == 0); }
                    assert(lvr(divisor@, 0, 1) == r as int) by { assert(lvr(divisor@, 1, 1) == 0); assert(B * 0 == 0); }
                }/*-*/
            } else {
                divisor[0] = div_nx1(numerator, divisor[0]);
                /*+*/proof {
                    assert(lvr(d1, 0, 1) == d1[0] as int) by { assert(lvr(d1, 1, 1) == 0); assert(B * 0 == 0); }
                    assert(lvr(divisor@, 0, 1) == divisor@[0] as int) by { assert(lvr(divisor@, 1, 1) == 0); assert(B * 0 == 0); }
                }/*-*/
            }
        } else {
            let d = u128::join(divisor[1], divisor[0]);
            /*+*/proof {
                assert(lvr(d1, 0, 2) == d1[0] as int + B * d1[1] as int) by { assert(lvr(d1, 2, 2) == 0); assert(B * 0 == 0); assert(lvr(d1, 1, 2) == d1[1] as int); }
                assert(d as int >= B) by(nonlinear_arith) requires d as int == d1[1] as int * B + d1[0] as int, d1[1] as int >= 1, d1[0] as int >= 0;
            }/*-*/
            let remainder = div_nx2(numerator, d);
            divisor[0] = remainder.low();
            divisor[1] = remainder.high();
            /*+*/proof {
                let dv = divisor@;
                lemma_fundamental_div_mod(remainder as int, B);
                assert(lvr(dv, 0, 2) == dv[0] as int + B * dv[1] as int) by { assert(lvr(dv, 2, 2) == 0); assert(B * 0 == 0); assert(lvr(dv, 1, 2) == dv[1] as int); }
                assert(lvr(dv, 0, 2) == remainder as int);
                assert(d as int == lvr(d1, 0, 2)) by(nonlinear_arith) requires d as int == d1[1] as int * B + d1[0] as int, lvr(d1, 0, 2) == d1[0] as int + B * d1[1] as int;
            }/*-*/
        }
    } else {
        div_nxm(numerator, divisor);
    }
    /*+*/proof {
        // lift from the trimmed slices to the full ones
        assert(numerator@ == pfn); assert(divisor@ == pfd);
        assert(nn == lvr(numerator@, 0, kn) * dd + lvr(divisor@, 0, kd));
        assert(0 <= lvr(divisor@, 0, kd) < dd) by { lemma_lvr_bound(divisor@, 0, kd); }
        lemma_lift_prefix(nold, nfin, kn, ln);
        lemma_lift_prefix(dold, dfin, kd, ld);
    }/*-*/
}
//@ end

// A (Rust fact): a `&mut [T]` cannot change the length of the slice it points to
#[verifier::external_body]
pub proof fn axiom_slice_len_stable<T>(x: &mut [T])
    ensures final(x).len() == old(x).len()
{}

} // verus!
fn main() {}

// vacuity guard: this unit contains a deliberately FALSE postcondition on a real function; the driver
// requires Verus to report it as failed on every run.
#![allow(non_snake_case)]
use vstd::prelude::*;
use vstd::arithmetic::power2::*;
use vstd::arithmetic::mul::*;
use vstd::arithmetic::div_mod::*;
use vstd::bits::*;
verus! {
//@ include lib/base.rs

//@ extract src/lib.rs fn nlimbs
pub fn nlimbs(bits: usize) -> /*+*/(r:/*-*/ usize/*+*/)
    requires bits <= usize::MAX - 63
    ensures r == spec_nlimbs(bits) + 1/*-*/     // deliberately false
{
    (bits + 63) / 64
}
//@ end
} // verus!
fn main() {}

// unit divw: src/div.rs + src/special.rs — Uint-level division wrappers over algorithms::div  (C03)
#![allow(non_snake_case)]
use vstd::prelude::*;
use vstd::arithmetic::power2::*;
use vstd::arithmetic::mul::*;
use vstd::arithmetic::div_mod::*;
use vstd::bits::*;
use vstd::std_specs::cmp::*;
use vstd::std_specs::ops::*;
use core::ops::{Div, Rem};
verus! {
//@ include lib/base.rs
//@ include lib/lvr.rs

//@ extract src/lib.rs struct Uint
pub struct Uint<const BITS: usize, const LIMBS: usize> { pub
    limbs: [u64; LIMBS],
}
//@ end

//@ include lib/uint_spec.rs
//@ include lib/uint_ops.rs

//@ import divd div
pub mod algorithms { pub use super::div; }

pub open spec fn is_next_mult(m: int, n: int, d: int) -> bool { m % d == 0 && n <= m < n + d }

// q*d + r == n with r < d  ==>  q == n / d, r == n % d, and q <= n
pub proof fn lemma_euclid(n: int, d: int, q: int, r: int)
    requires d > 0, 0 <= r < d, n == q * d + r, n >= 0
    ensures q == n / d, r == n % d, 0 <= q <= n
{
    lemma_fundamental_div_mod_converse(n, d, q, r);
    assert(q * d == d * q) by(nonlinear_arith);
    assert(q >= 0) by(nonlinear_arith) requires q * d + r >= 0, r < d, d > 0;
    assert(q <= n) by(nonlinear_arith) requires n == q * d + r, d >= 1, r >= 0, q >= 0;
}

impl<const BITS: usize, const LIMBS: usize> Uint<BITS, LIMBS> {
//@ import basics ONE
//@ import basics is_zero
//@ import add checked_add
//@ import mul checked_mul

    pub proof fn lemma_val_lvr(self)
        ensures lvr(self.limbs@, 0, LIMBS as int) == self.val(), bp(LIMBS as int) == pow2(64 * LIMBS as nat)
    {
        lemma_lvr_is_lv(self.limbs@, LIMBS as nat);
        lemma_bp_is_pow2(LIMBS as nat);
    }

//@ extract src/div.rs fn div_rem
    pub fn div_rem(self, rhs: Self) -> /*+*/(r:/*-*/ (Self, Self)/*+*/)
        requires self.wf(), rhs.wf(),
            // documented: panics if rhs == 0
            rhs.val() != 0,
        ensures r.0.wf(), r.1.wf(),
            self.val() == r.0.val() * rhs.val() + r.1.val(), r.1.val() < rhs.val(),
            r.0.val() as int == self.val() as int / rhs.val() as int, r.1.val() as int == self.val() as int % rhs.val() as int,/*-*/
    { let mut this = self ; let mut rhs = rhs ;
        /*+*/let ghost d0 = rhs;
        proof { self.lemma_val_lvr(); d0.lemma_val_lvr(); }/*-*/
        algorithms::div(&mut this.limbs, &mut rhs.limbs);
        /*+*/proof {
            this.lemma_val_lvr(); rhs.lemma_val_lvr();
            lemma_euclid(self.val() as int, d0.val() as int, this.val() as int, rhs.val() as int);
            self.lemma_wf_lt(); d0.lemma_wf_lt();
            if BITS > 0 { this.lemma_wf_iff_lt(); rhs.lemma_wf_iff_lt(); }
        }/*-*/
        (this, rhs)
    }
//@ end

//@ extract src/div.rs fn wrapping_div
    pub fn wrapping_div(self, rhs: Self) -> /*+*/(r:/*-*/ Self/*+*/)
        requires self.wf(), rhs.wf(), rhs.val() != 0
        ensures r.wf(), r.val() as int == self.val() as int / rhs.val() as int/*-*/
    {
        self.div_rem(rhs).0
    }
//@ end

//@ extract src/div.rs fn wrapping_rem
    pub fn wrapping_rem(self, rhs: Self) -> /*+*/(r:/*-*/ Self/*+*/)
        requires self.wf(), rhs.wf(), rhs.val() != 0
        ensures r.wf(), r.val() as int == self.val() as int % rhs.val() as int/*-*/
    {
        self.div_rem(rhs).1
    }
//@ end

//@ extract src/div.rs fn checked_div
    pub fn checked_div(self, rhs: Self) -> /*+*/(r:/*-*/ Option<Self>/*+*/)
        requires self.wf(), rhs.wf(), BITS <= usize::MAX - 63
        ensures r.is_none() <==> rhs.val() == 0,
            r.is_some() ==> r.unwrap().wf() && r.unwrap().val() as int == self.val() as int / rhs.val() as int/*-*/
    {
        if rhs.is_zero() {
            return None;
        }
        Some(self.div(rhs))
    }
//@ end

//@ extract src/div.rs fn checked_rem
    pub fn checked_rem(self, rhs: Self) -> /*+*/(r:/*-*/ Option<Self>/*+*/)
        requires self.wf(), rhs.wf(), BITS <= usize::MAX - 63
        ensures r.is_none() <==> rhs.val() == 0,
            r.is_some() ==> r.unwrap().wf() && r.unwrap().val() as int == self.val() as int % rhs.val() as int/*-*/
    {
        if rhs.is_zero() {
            return None;
        }
        Some(self.rem(rhs))
    }
//@ end

//@ extract src/div.rs fn div_ceil
    pub fn div_ceil(self, rhs: Self) -> /*+*/(r:/*-*/ Self/*+*/)
        requires self.wf(), rhs.wf(), rhs.val() != 0, BITS <= usize::MAX - 63
        ensures r.wf(),
            // ceil(n / d)
            ((r.val() as int - 1) * (rhs.val() as int) < (self.val() as int) && (self.val() as int) <= (r.val() as int) * (rhs.val() as int)) || (self.val() == 0 && r.val() == 0),/*-*/
    {
        let (q, r) = self.div_rem(rhs);
        /*+*/proof {
            self.lemma_wf_lt(); lemma_pow2_pos(BITS as nat);
            let n = self.val() as int; let d = rhs.val() as int; let qi = q.val() as int; let ri = r.val() as int;
            if ri != 0 {
                // q + 1 does not wrap: q*d < n < 2^BITS and d >= 1 ... q + 1 <= n < 2^BITS
                assert(qi + 1 <= n) by(nonlinear_arith) requires n == qi * d + ri, ri >= 1, d >= 1, qi >= 0;
                lemma_small_mod((qi + 1) as nat, pow2(BITS as nat));
                assert(qi * d < n && n <= (qi + 1) * d) by(nonlinear_arith) requires n == qi * d + ri, 1 <= ri < d;
            } else {
                assert(n == qi * d);
                if n > 0 { assert((qi - 1) * d < n) by(nonlinear_arith) requires n == qi * d, d >= 1; }
                if n == 0 { assert(qi == 0) by(nonlinear_arith) requires qi * d == 0, d >= 1, qi >= 0; }
            }
            assert(BITS > 0);
        }/*-*/
        if r.is_zero() {
            q
        } else {
            q + Self::ONE()
        }
    }
//@ end

//@ extract src/special.rs fn checked_next_multiple_of
    pub fn checked_next_multiple_of(self, rhs: Self) -> /*+*/(r:/*-*/ Option<Self>/*+*/)
        requires self.wf(), rhs.wf(), BITS <= usize::MAX - 63
        ensures
            rhs.val() == 0 ==> r.is_none(),
            // Some(m): m is the least multiple of rhs that is >= self
            r.is_some() ==> rhs.val() != 0 && r.unwrap().wf() && r.unwrap().val() % rhs.val() == 0
                && self.val() <= r.unwrap().val() < self.val() + rhs.val(),
            // None for a non-zero rhs: that multiple does not fit
            r.is_none() && rhs.val() != 0 ==> exists|m: int| #[trigger] is_next_mult(m, self.val() as int, rhs.val() as int) && m >= pow2(BITS as nat),/*-*/
    {
        if rhs.is_zero() {
            return None;
        }
        let (q, r) = self.div_rem(rhs);
        /*+*/let ghost n = self.val() as int; let ghost d = rhs.val() as int; let ghost qi = q.val() as int; let ghost ri = r.val() as int;/*-*/
        if r.is_zero() {
            /*+*/proof { lemma_fundamental_div_mod_converse(n, d, qi, 0); assert(qi * d == d * qi) by(nonlinear_arith); }/*-*/
            return Some(self);
        }
        /*+*/proof {
            self.lemma_wf_lt(); lemma_pow2_pos(BITS as nat);
            assert(BITS > 0);
            let m = (qi + 1) * d;
            assert(m == n + (d - ri)) by(nonlinear_arith) requires n == qi * d + ri, m == (qi + 1) * d;
            lemma_mod_multiples_basic(qi + 1, d);
            assert(is_next_mult(m, n, d));
            // q + 1 < 2^BITS always here (q + 1 <= n)
            assert(qi + 1 <= n) by(nonlinear_arith) requires n == qi * d + ri, ri >= 1, d >= 1, qi >= 0;
        }/*-*/
        let q = q.checked_add(Self::ONE())?;
        q.checked_mul(rhs)
    }
//@ end

//@ extract src/special.rs fn next_multiple_of
    pub fn next_multiple_of(self, rhs: Self) -> /*+*/(r:/*-*/ Self/*+*/)
        requires self.wf(), rhs.wf(), BITS <= usize::MAX - 63,
            // documented: panics if rhs is 0 or the operation overflows
            rhs.val() != 0,
            forall|m: int| #[trigger] is_next_mult(m, self.val() as int, rhs.val() as int) ==> m < pow2(BITS as nat),
        ensures r.wf(), r.val() % rhs.val() == 0, self.val() <= r.val() < self.val() + rhs.val(),/*-*/
    {
        self.checked_next_multiple_of(rhs).unwrap()
    }
//@ end
}

} // verus!
fn main() {}

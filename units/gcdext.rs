// unit gcdext: src/algorithms/gcd/mod.rs — inv_mod and gcd_extended (Lehmer-accelerated extended Euclid with implicit-sign
// cofactors in wrapping arithmetic), modular over the ASSUMED contract of LehmerMatrix::from / apply (lib/lehmer.rs)  (C10, C12)
#![allow(non_snake_case)]
use vstd::prelude::*;
use vstd::arithmetic::power2::*;
use vstd::arithmetic::mul::*;
use vstd::arithmetic::div_mod::*;
use vstd::bits::*;
use vstd::std_specs::cmp::*;
use vstd::std_specs::ops::*;
use core::mem::swap;
verus! {
//@ include lib/base.rs

//@ extract src/lib.rs struct Uint
pub struct Uint<const BITS: usize, const LIMBS: usize> { pub
    limbs: [u64; LIMBS],
}
//@ end

//@ include lib/uint_spec.rs
//@ include lib/uint_ops.rs

impl<const BITS: usize, const LIMBS: usize> Uint<BITS, LIMBS> {
//@ import core ZERO
//@ import basics ONE
//@ import basics is_zero
}

//@ extract src/algorithms/gcd/matrix.rs struct Matrix
pub struct Matrix(pub u64, pub u64, pub u64, pub u64, pub bool);
//@ end
pub type LehmerMatrix = Matrix;
//@ include lib/lehmer_spec.rs
//@ include lib/lehmer.rs
impl Matrix {
//@ import lehmer IDENTITY
//@ import lehmer apply
//@ import lehmer from
}

// signed cofactor with implicit sign: magnitude t, negative iff neg
pub open spec fn sg(t: int, neg: bool) -> int { if neg { -t } else { t } }

// wrapping Euclid update of a cofactor:  (t0 - q*t1) mod W  tracks  s0 - q*s1
pub proof fn lemma_cof_euclid(t0v: int, t1v: int, s0: int, s1: int, q: int, w: int)
    requires w > 0, t0v == s0 % w, t1v == s1 % w
    ensures (t0v - (q * t1v) % w) % w == (s0 - q * s1) % w
{
    lemma_mul_mod_noop_right(q, s1, w);
    lemma_sub_mod_noop(s0, q * s1, w);
}

// wrapping matrix update of a cofactor:  (x*t0 - y*t1) mod W  tracks  x*s0 - y*s1
pub proof fn lemma_cof_matrix(t0v: int, t1v: int, s0: int, s1: int, x: int, y: int, w: int)
    requires w > 0, t0v == s0 % w, t1v == s1 % w
    ensures (x * t0v - y * t1v) % w == (x * s0 - y * s1) % w
{
    lemma_mul_mod_noop_right(x, s0, w);
    lemma_mul_mod_noop_right(y, s1, w);
    lemma_sub_mod_noop(x * s0, y * s1, w);
    lemma_sub_mod_noop(x * t0v, y * t1v, w);
}

// k*m == 1 is impossible for m >= 2
pub proof fn lemma_no_unit(k: int, m: int)
    requires m >= 2
    ensures k * m != 1
{
    if k >= 1 { assert(k * m >= 2) by(nonlinear_arith) requires k >= 1, m >= 2; }
    else { assert(k * m <= 0) by(nonlinear_arith) requires k <= 0, m >= 2; }
}

// one Euclid step on the ghost state
pub proof fn lemma_euclid_step(a: int, b: int, q: int, r: int, t0: int, t1: int, mm: int)
    requires a == b * q + r, t1 * a + t0 * b == mm
    ensures (t0 + q * t1) * b + t1 * r == mm
{
    assert((t0 + q * t1) * b + t1 * r == t1 * (b * q + r) + t0 * b) by(nonlinear_arith);
}
pub proof fn lemma_euclid_rel(a: int, b: int, q: int, s0: int, s1: int, ka: int, kb: int, nn: int, mm: int)
    requires a == s0 * nn + ka * mm, b == s1 * nn + kb * mm
    ensures a - q * b == (s0 - q * s1) * nn + (ka - q * kb) * mm
{
    lemma_lin(q, s1, kb, nn, mm);
    lemma_mul_is_distributive_sub_other_way(nn, s0, q * s1);
    lemma_mul_is_distributive_sub_other_way(mm, ka, q * kb);
}
// x * (s*nn + k*mm) == (x*s)*nn + (x*k)*mm
pub proof fn lemma_lin(x: int, s: int, k: int, nn: int, mm: int)
    ensures x * (s * nn + k * mm) == (x * s) * nn + (x * k) * mm
{
    lemma_mul_is_distributive_add(x, s * nn, k * mm);
    lemma_mul_is_associative(x, s, nn);
    lemma_mul_is_associative(x, k, mm);
}
// one matrix step on the ghost state: x*u - y*v of two represented numbers
pub proof fn lemma_matrix_rel(a: int, b: int, x: int, y: int, s0: int, s1: int, ka: int, kb: int, nn: int, mm: int)
    requires a == s0 * nn + ka * mm, b == s1 * nn + kb * mm
    ensures x * a - y * b == (x * s0 - y * s1) * nn + (x * ka - y * kb) * mm
{
    lemma_lin(x, s0, ka, nn, mm);
    lemma_lin(y, s1, kb, nn, mm);
    lemma_mul_is_distributive_sub_other_way(nn, x * s0, y * s1);
    lemma_mul_is_distributive_sub_other_way(mm, x * ka, y * kb);
}
// the invariant T1*a + T0*b == M under a matrix of determinant det (pattern true: det = 1, c = m0 a - m1 b, d = m3 b - m2 a)
pub proof fn lemma_matrix_det(a: int, b: int, t0: int, t1: int, m0: int, m1: int, m2: int, m3: int, mm: int)
    requires t1 * a + t0 * b == mm
    ensures (m2 * t0 + m3 * t1) * (m0 * a - m1 * b) + (m0 * t0 + m1 * t1) * (m3 * b - m2 * a) == (m0 * m3 - m1 * m2) * mm
{
    let p = m2 * t0 + m3 * t1; let q = m0 * t0 + m1 * t1;
    let c = m0 * a - m1 * b; let d = m3 * b - m2 * a;
    let det = m0 * m3 - m1 * m2;
    // p*m0 - q*m2 == t1*det and q*m3 - p*m1 == t0*det: distributivity plus monomial rearrangements (one query each took 20 s)
    lemma_mul_is_distributive_add_other_way(m0, m2 * t0, m3 * t1);
    lemma_mul_is_distributive_add_other_way(m2, m0 * t0, m1 * t1);
    assert((m2 * t0) * m0 == (m0 * t0) * m2) by(nonlinear_arith);
    assert((m3 * t1) * m0 == t1 * (m0 * m3)) by(nonlinear_arith);
    assert((m1 * t1) * m2 == t1 * (m1 * m2)) by(nonlinear_arith);
    lemma_mul_is_distributive_sub(t1, m0 * m3, m1 * m2);
    assert(p * m0 - q * m2 == t1 * det);
    lemma_mul_is_distributive_add_other_way(m3, m0 * t0, m1 * t1);
    lemma_mul_is_distributive_add_other_way(m1, m2 * t0, m3 * t1);
    assert((m1 * t1) * m3 == (m3 * t1) * m1) by(nonlinear_arith);
    assert((m0 * t0) * m3 == t0 * (m0 * m3)) by(nonlinear_arith);
    assert((m2 * t0) * m1 == t0 * (m1 * m2)) by(nonlinear_arith);
    lemma_mul_is_distributive_sub(t0, m0 * m3, m1 * m2);
    assert(q * m3 - p * m1 == t0 * det);
    // p*c + q*d == a*(p*m0 - q*m2) + b*(q*m3 - p*m1), by distributivity only
    lemma_mul_is_distributive_sub(p, m0 * a, m1 * b);
    lemma_mul_is_associative(p, m0, a); lemma_mul_is_associative(p, m1, b);
    lemma_mul_is_distributive_sub(q, m3 * b, m2 * a);
    lemma_mul_is_associative(q, m3, b); lemma_mul_is_associative(q, m2, a);
    assert(p * c + q * d == (p * m0) * a - (p * m1) * b + (q * m3) * b - (q * m2) * a);
    lemma_mul_is_distributive_sub_other_way(a, p * m0, q * m2);
    lemma_mul_is_distributive_sub_other_way(b, q * m3, p * m1);
    lemma_mul_is_commutative(a, p * m0 - q * m2);
    lemma_mul_is_commutative(b, q * m3 - p * m1);
    lemma_mul_is_distributive_add(det, t1 * a, t0 * b);
    assert(a * (t1 * det) == det * (t1 * a)) by(nonlinear_arith);
    assert(b * (t0 * det) == det * (t0 * b)) by(nonlinear_arith);
}

//@ extract src/algorithms/gcd/mod.rs fn inv_mod consts=IDENTITY cprefix=LehmerMatrix
pub fn inv_mod<const BITS: usize, const LIMBS: usize>(
    num: Uint<BITS, LIMBS>,
    modulus: Uint<BITS, LIMBS>,
) -> /*+*/(r:/*-*/ Option<Uint<BITS, LIMBS>>/*+*/)
    requires num.wf(), modulus.wf(), BITS <= usize::MAX - 63
    ensures
        r.is_some() <==> (modulus.val() >= 2 && sgcd(num.val(), modulus.val()) == 1),
        r.is_some() ==> r.unwrap().wf() && r.unwrap().val() < modulus.val()
            && (num.val() * r.unwrap().val()) % modulus.val() == 1,/*-*/
{
    if BITS == 0 || modulus.is_zero() {
        /*+*/proof { if BITS == 0 { lemma2_to64(); modulus.lemma_wf_lt(); } }/*-*/
        return None;
    }
    let mut a = modulus;
    let mut b = num;
    /*+*/let ghost M = modulus.val() as int;
    let ghost W = m2(BITS);
    proof { assert(sgcd(num.val(), modulus.val()) == sgcd(modulus.val(), num.val() % modulus.val())); }/*-*/
    if b >= a {
        b %= a;
    }
    /*+*/let ghost N = b.val() as int;
    proof {
        if num.val() < modulus.val() { lemma_small_mod(num.val(), modulus.val()); }
        assert(N == num.val() as int % M);
        lemma_mod_bound(num.val() as int, M);
    }/*-*/
    if b.is_zero() {
        /*+*/proof { assert(sgcd(modulus.val(), 0) == modulus.val()); if M == 1 { assert(sgcd(1, 0) == 1); } }/*-*/
        return None;
    }
    let mut t0 = Uint::ZERO();
    let mut t1 = Uint::ONE();
    let mut even = true;
    /*+*/let ghost target = sgcd(a.val(), b.val());
    let ghost mut T0: int = 0;
    let ghost mut T1: int = 1;
    let ghost mut ka: int = 1;
    let ghost mut kb: int = 0;
    proof {
        modulus.lemma_wf_lt(); lemma_pow2_pos(BITS as nat);
        lemma_small_mod(0, W as nat); lemma_small_mod(1, W as nat);
        assert(M == 0 * N + 1 * M) by(nonlinear_arith);
        assert(N == 1 * N + 0 * M) by(nonlinear_arith);
        assert(1 * M + 0 * N == M) by(nonlinear_arith);
    }/*-*/
    while b != Uint::ZERO()
        /*+*/invariant
            BITS > 0, BITS <= usize::MAX - 63, a.wf(), b.wf(), t0.wf(), t1.wf(), modulus.wf(),
            M == modulus.val(), M >= 2, W == m2(BITS), M < W, 0 < N < M,
            a.val() >= b.val(),
            sgcd(a.val(), b.val()) == target,
            0 <= T0 <= T1,
            T1 * a.val() + T0 * b.val() == M,
            a.val() as int == sg(T0, even) * N + ka * M,
            b.val() as int == sg(T1, !even) * N + kb * M,
            t0.val() as int == sg(T0, even) % W,
            t1.val() as int == sg(T1, !even) % W,
        decreases b.val()/*-*/
    {
        vassert (a >= b );
        /*+*/let ghost av = a.val() as int; let ghost bv = b.val() as int;
        let ghost s0 = sg(T0, even); let ghost s1 = sg(T1, !even);
        let ghost t0v = t0.val() as int; let ghost t1v = t1.val() as int;
        proof { a.lemma_wf_lt(); }/*-*/
        let m = LehmerMatrix::from(a, b);
        if m == LehmerMatrix::IDENTITY() {
            let q = a / b;
            /*+*/let ghost qv = q.val() as int;
            proof {
                lemma_fundamental_div_mod(av, bv);
                lemma_mod_bound(av, bv);
                assert(qv >= 1) by(nonlinear_arith) requires av == bv * qv + av % bv, av % bv < bv, av >= bv, bv > 0;
                assert(0 <= qv * bv <= av) by(nonlinear_arith) requires av == bv * qv + av % bv, av % bv >= 0, qv >= 0, bv > 0;
                lemma_small_mod((qv * bv) as nat, W as nat);
                lemma_small_mod((av - qv * bv) as nat, W as nat);
                assert(sgcd(av as nat, bv as nat) == sgcd(bv as nat, (av % bv) as nat));
            }/*-*/
            a -= q * b;
            swap(&mut a, &mut b);
            t0 -= q * t1;
            swap(&mut t0, &mut t1);
            even = !even;
            /*+*/proof {
                let r = av % bv;
                assert(av - qv * bv == r) by(nonlinear_arith) requires av == bv * qv + r;
                lemma_cof_euclid(t0v, t1v, s0, s1, qv, W);
                lemma_euclid_step(av, bv, qv, r, T0, T1, M);
                lemma_euclid_rel(av, bv, qv, s0, s1, ka, kb, N, M);
                let nT1 = T0 + qv * T1;
                assert(nT1 >= T1) by(nonlinear_arith) requires nT1 == T0 + qv * T1, T0 >= 0, T1 >= 0, qv >= 1;
                // signs: s0' = s1, s1' = s0 - q*s1 = -/+ (T0 + q*T1)
                assert(s0 - qv * s1 == sg(nT1, !even)) by(nonlinear_arith)
                    requires s0 == sg(T0, !even), s1 == sg(T1, even), nT1 == T0 + qv * T1,
                             sg(T0, !even) == (if !even { -T0 } else { T0 }), sg(T1, even) == (if even { -T1 } else { T1 }),
                             sg(nT1, !even) == (if !even { -nT1 } else { nT1 });
                let nkb = ka - qv * kb;
                T0 = T1; T1 = nT1;
                let oka = ka; ka = kb; kb = nkb;
            }/*-*/
        } else {
            /*+*/proof {
                let (c, d) = maps(m, av, bv);
                lemma_small_mod(c as nat, W as nat);
                lemma_small_mod(d as nat, W as nat);
            }/*-*/
            m.apply(&mut a, &mut b);
            m.apply(&mut t0, &mut t1);
            even ^= !m.4;
            /*+*/proof {
                let m0 = m.0 as int; let m1 = m.1 as int; let m2_ = m.2 as int; let m3 = m.3 as int;
                let nT0 = m0 * T0 + m1 * T1; let nT1 = m2_ * T0 + m3 * T1;
                assert(0 <= nT0 <= nT1) by(nonlinear_arith)
                    requires nT0 == m0 * T0 + m1 * T1, nT1 == m2_ * T0 + m3 * T1, 0 <= m0 <= m2_, 0 <= m1 <= m3, 0 <= T0, 0 <= T1;
                lemma_matrix_det(av, bv, T0, T1, m0, m1, m2_, m3, M);
                if m.4 {
                    lemma_cof_matrix(t0v, t1v, s0, s1, m0, m1, W);
                    lemma_cof_matrix(t1v, t0v, s1, s0, m3, m2_, W);
                    lemma_matrix_rel(av, bv, m0, m1, s0, s1, ka, kb, N, M);
                    lemma_matrix_rel(bv, av, m3, m2_, s1, s0, kb, ka, N, M);
                    assert(1 * M == M) by(nonlinear_arith);
                    // even is unchanged
                    assert(m0 * s0 - m1 * s1 == sg(nT0, even)) by(nonlinear_arith)
                        requires s0 == (if even { -T0 } else { T0 }), s1 == (if !even { -T1 } else { T1 }), nT0 == m0 * T0 + m1 * T1,
                                 sg(nT0, even) == (if even { -nT0 } else { nT0 });
                    assert(m3 * s1 - m2_ * s0 == sg(nT1, !even)) by(nonlinear_arith)
                        requires s0 == (if even { -T0 } else { T0 }), s1 == (if !even { -T1 } else { T1 }), nT1 == m2_ * T0 + m3 * T1,
                                 sg(nT1, !even) == (if !even { -nT1 } else { nT1 });
                    let nka = m0 * ka - m1 * kb; let nkb = m3 * kb - m2_ * ka;
                    ka = nka; kb = nkb;
                } else {
                    lemma_cof_matrix(t1v, t0v, s1, s0, m1, m0, W);
                    lemma_cof_matrix(t0v, t1v, s0, s1, m2_, m3, W);
                    lemma_matrix_rel(bv, av, m1, m0, s1, s0, kb, ka, N, M);
                    lemma_matrix_rel(av, bv, m2_, m3, s0, s1, ka, kb, N, M);
                    // determinant -1 with both components negated
                    let c = m1 * bv - m0 * av; let d = m2_ * av - m3 * bv;
                    assert(nT1 * c + nT0 * d == M) by(nonlinear_arith)
                        requires nT1 * (m0 * av - m1 * bv) + nT0 * (m3 * bv - m2_ * av) == (m0 * m3 - m1 * m2_) * M,
                                 m0 * m3 - m1 * m2_ == -1, c == m1 * bv - m0 * av, d == m2_ * av - m3 * bv;
                    // even has flipped: `even` now denotes the new value
                    assert(m1 * s1 - m0 * s0 == sg(nT0, even)) by(nonlinear_arith)
                        requires s0 == (if !even { -T0 } else { T0 }), s1 == (if even { -T1 } else { T1 }), nT0 == m0 * T0 + m1 * T1,
                                 sg(nT0, even) == (if even { -nT0 } else { nT0 });
                    assert(m2_ * s0 - m3 * s1 == sg(nT1, !even)) by(nonlinear_arith)
                        requires s0 == (if !even { -T0 } else { T0 }), s1 == (if even { -T1 } else { T1 }), nT1 == m2_ * T0 + m3 * T1,
                                 sg(nT1, !even) == (if !even { -nT1 } else { nT1 });
                    let nka = m1 * kb - m0 * ka; let nkb = m2_ * ka - m3 * kb;
                    ka = nka; kb = nkb;
                }
                T0 = nT0; T1 = nT1;
            }/*-*/
        }
    }
    /*+*/proof {
        assert(sgcd(a.val(), 0) == a.val());
        lemma_mul_mod_noop_left(num.val() as int, if even { M - T0 } else { T0 }, M);
        if a.val() == 1 {
            // T1 == M, 0 <= T0 <= M, 1 == sg(T0, even)*N + ka*M
            assert(T1 == M) by(nonlinear_arith) requires T1 * 1 + T0 * 0 == M;
            let s0 = sg(T0, even);
            if T0 == 0 { assert(0 * N == 0) by(nonlinear_arith); lemma_no_unit(ka, M); }
            if T0 == M {
                assert(s0 * N + ka * M == (ka + (if even { -N } else { N })) * M) by(nonlinear_arith)
                    requires s0 == (if even { -M } else { M });
                lemma_no_unit(ka + (if even { -N } else { N }), M);
            }
            assert(1 <= T0 <= M - 1);
            if even {
                // t0 == W - T0;  modulus + t0 wraps to M - T0
                lemma_fundamental_div_mod_converse(-T0, W, -1, W - T0);
                lemma_fundamental_div_mod_converse(M + (W - T0), W, 1, M - T0);
                let x = M - T0;
                assert(N * x == 1 + (N - ka) * M) by(nonlinear_arith) requires 1 == (-T0) * N + ka * M, x == M - T0;
                lemma_mod_multiples_vanish(N - ka, 1, M);
                assert((M * (N - ka) + 1) == 1 + (N - ka) * M) by(nonlinear_arith);
                lemma_small_mod(1, M as nat);
            } else {
                lemma_small_mod(T0 as nat, W as nat);
                assert(N * T0 == 1 + (-ka) * M) by(nonlinear_arith) requires 1 == T0 * N + ka * M;
                lemma_mod_multiples_vanish(-ka, 1, M);
                assert((M * (-ka) + 1) == 1 + (-ka) * M) by(nonlinear_arith);
                lemma_small_mod(1, M as nat);
            }
        }
    }/*-*/
    if a == Uint::ONE() {
        Some(if even { modulus + t0 } else { t0 })
    } else {
        None
    }
}
//@ end

// the Bezout relation of one row under a matrix step, exact over the integers
pub proof fn lemma_bezout_matrix(a: int, b: int, x: int, y: int, sa: int, ta: int, sb: int, tb: int, aa: int, bb: int)
    requires a == sa * aa + ta * bb, b == sb * aa + tb * bb
    ensures x * a - y * b == (x * sa - y * sb) * aa + (x * ta - y * tb) * bb
{
    lemma_matrix_rel(a, b, x, y, sa, sb, ta, tb, aa, bb);
}

//@ extract src/algorithms/gcd/mod.rs fn gcd_extended consts=IDENTITY cprefix=LehmerMatrix
pub fn gcd_extended<const BITS: usize, const LIMBS: usize>(
    a: Uint<BITS, LIMBS>,
    b: Uint<BITS, LIMBS>,
) -> /*+*/(r:/*-*/ (
    Uint<BITS, LIMBS>,
    Uint<BITS, LIMBS>,
    Uint<BITS, LIMBS>,
    bool,
)/*+*/)
    requires a.wf(), b.wf(), BITS <= usize::MAX - 63
    ensures r.0.wf(), r.1.wf(), r.2.wf(),
        a.val() >= b.val() ==> r.0.val() == sgcd(a.val(), b.val()),
        a.val() < b.val() ==> r.0.val() == sgcd(b.val(), a.val()),
        r.3 ==> (a.val() * r.1.val() - b.val() * r.2.val()) % m2(BITS) == r.0.val(),
        !r.3 ==> (b.val() * r.2.val() - a.val() * r.1.val()) % m2(BITS) == r.0.val(),/*-*/
{ let mut a = a ; let mut b = b ;
    /*+*/let ghost a_in = a.val() as int; let ghost b_in = b.val() as int;
    let ghost W = m2(BITS);/*-*/
    if BITS == 0 {
        /*+*/proof { lemma2_to64(); a.lemma_wf_lt(); b.lemma_wf_lt(); assert(sgcd(0, 0) == 0); assert(0 * 0 - 0 * 0 == 0) by(nonlinear_arith); lemma_small_mod(0, 1); }/*-*/
        return (Uint::ZERO(), Uint::ZERO(), Uint::ZERO(), false);
    }
    let swapped = a < b;
    if swapped {
        swap(&mut a, &mut b);
    }
    /*+*/let ghost AA = a.val() as int; let ghost BB = b.val() as int;/*-*/
    let mut s0 = Uint::ONE();
    let mut s1 = Uint::ZERO();
    let mut t0 = Uint::ZERO();
    let mut t1 = Uint::ONE();
    let mut even = true;
    /*+*/let ghost target = sgcd(a.val(), b.val());
    // the true (unbounded, signed) cofactors; the stored ones are their residues modulo 2^BITS
    let ghost mut S0: int = 1; let ghost mut S1: int = 0; let ghost mut T0: int = 0; let ghost mut T1: int = 1;
    proof {
        lemma_pow2_pos(BITS as nat); a.lemma_wf_lt();
        lemma_pow2_strictly_increases(0, BITS as nat); lemma2_to64();
        lemma_small_mod(0, W as nat); lemma_small_mod(1, W as nat);
        assert(AA == 1 * AA + 0 * BB) by(nonlinear_arith);
        assert(BB == 0 * AA + 1 * BB) by(nonlinear_arith);
    }/*-*/
    while b != Uint::ZERO()
        /*+*/invariant
            BITS > 0, BITS <= usize::MAX - 63, a.wf(), b.wf(), s0.wf(), s1.wf(), t0.wf(), t1.wf(),
            W == m2(BITS), W > 1,
            a.val() >= b.val(),
            sgcd(a.val(), b.val()) == target,
            a.val() as int == S0 * AA + T0 * BB,
            b.val() as int == S1 * AA + T1 * BB,
            s0.val() as int == S0 % W, s1.val() as int == S1 % W,
            t0.val() as int == T0 % W, t1.val() as int == T1 % W,
        decreases b.val()/*-*/
    {
        vassert (a >= b );
        /*+*/let ghost av = a.val() as int; let ghost bv = b.val() as int;
        let ghost s0v = s0.val() as int; let ghost s1v = s1.val() as int; let ghost t0v = t0.val() as int; let ghost t1v = t1.val() as int;
        proof { a.lemma_wf_lt(); }/*-*/
        let m = LehmerMatrix::from(a, b);
        if m == LehmerMatrix::IDENTITY() {
            let q = a / b;
            /*+*/let ghost qv = q.val() as int;
            proof {
                lemma_fundamental_div_mod(av, bv);
                lemma_mod_bound(av, bv);
                assert(0 <= qv * bv <= av) by(nonlinear_arith) requires av == bv * qv + av % bv, av % bv >= 0, qv >= 0, bv > 0;
                lemma_small_mod((qv * bv) as nat, W as nat);
                lemma_small_mod((av - qv * bv) as nat, W as nat);
                assert(sgcd(av as nat, bv as nat) == sgcd(bv as nat, (av % bv) as nat));
            }/*-*/
            a -= q * b;
            swap(&mut a, &mut b);
            s0 -= q * s1;
            swap(&mut s0, &mut s1);
            t0 -= q * t1;
            swap(&mut t0, &mut t1);
            even = !even;
            /*+*/proof {
                let r = av % bv;
                assert(av - qv * bv == r) by(nonlinear_arith) requires av == bv * qv + r;
                lemma_cof_euclid(s0v, s1v, S0, S1, qv, W);
                lemma_cof_euclid(t0v, t1v, T0, T1, qv, W);
                lemma_bezout_matrix(av, bv, 1, qv, S0, T0, S1, T1, AA, BB);
                assert(1 * av - qv * bv == av - qv * bv) by(nonlinear_arith);
                assert((1 * S0 - qv * S1) == S0 - qv * S1 && (1 * T0 - qv * T1) == T0 - qv * T1) by(nonlinear_arith);
                let nS1 = S0 - qv * S1; let nT1 = T0 - qv * T1;
                S0 = S1; S1 = nS1; T0 = T1; T1 = nT1;
            }/*-*/
        } else {
            /*+*/proof {
                let (c, d) = maps(m, av, bv);
                lemma_small_mod(c as nat, W as nat);
                lemma_small_mod(d as nat, W as nat);
            }/*-*/
            m.apply(&mut a, &mut b);
            m.apply(&mut s0, &mut s1);
            m.apply(&mut t0, &mut t1);
            even ^= !m.4;
            /*+*/proof {
                let m0 = m.0 as int; let m1 = m.1 as int; let m2_ = m.2 as int; let m3 = m.3 as int;
                if m.4 {
                    lemma_cof_matrix(s0v, s1v, S0, S1, m0, m1, W);
                    lemma_cof_matrix(s1v, s0v, S1, S0, m3, m2_, W);
                    lemma_cof_matrix(t0v, t1v, T0, T1, m0, m1, W);
                    lemma_cof_matrix(t1v, t0v, T1, T0, m3, m2_, W);
                    lemma_bezout_matrix(av, bv, m0, m1, S0, T0, S1, T1, AA, BB);
                    lemma_bezout_matrix(bv, av, m3, m2_, S1, T1, S0, T0, AA, BB);
                    let nS0 = m0 * S0 - m1 * S1; let nS1 = m3 * S1 - m2_ * S0;
                    let nT0 = m0 * T0 - m1 * T1; let nT1 = m3 * T1 - m2_ * T0;
                    S0 = nS0; S1 = nS1; T0 = nT0; T1 = nT1;
                } else {
                    lemma_cof_matrix(s1v, s0v, S1, S0, m1, m0, W);
                    lemma_cof_matrix(s0v, s1v, S0, S1, m2_, m3, W);
                    lemma_cof_matrix(t1v, t0v, T1, T0, m1, m0, W);
                    lemma_cof_matrix(t0v, t1v, T0, T1, m2_, m3, W);
                    lemma_bezout_matrix(bv, av, m1, m0, S1, T1, S0, T0, AA, BB);
                    lemma_bezout_matrix(av, bv, m2_, m3, S0, T0, S1, T1, AA, BB);
                    let nS0 = m1 * S1 - m0 * S0; let nS1 = m2_ * S0 - m3 * S1;
                    let nT0 = m1 * T1 - m0 * T0; let nT1 = m2_ * T0 - m3 * T1;
                    S0 = nS0; S1 = nS1; T0 = nT0; T1 = nT1;
                }
            }/*-*/
        }
    }
    /*+*/let ghost g = a.val() as int;
    let ghost xs = s0.val() as int; let ghost yt = t0.val() as int;
    proof {
        assert(sgcd(a.val(), 0) == a.val());
        a.lemma_wf_lt();
        lemma_small_mod(g as nat, W as nat);
        assert(0 * AA + 0 * BB == 0) by(nonlinear_arith);
        assert(BB * 0 == 0) by(nonlinear_arith);
        // g == S0*AA + T0*BB exactly
        lemma_sub_mod_noop(0, T0, W);
        lemma_sub_mod_noop(0, S0, W);
        lemma_small_mod(0, W as nat);
        // even:  (AA*xs - BB*((0 - yt) % W)) % W == (AA*S0 - BB*(-T0)) % W == g
        lemma_cof_matrix(xs, (0 - yt) % W, S0, -T0, AA, BB, W);
        assert(AA * S0 - BB * (-T0) == S0 * AA + T0 * BB) by(nonlinear_arith);
        // odd:   (BB*yt - AA*((0 - xs) % W)) % W == (BB*T0 - AA*(-S0)) % W == g
        lemma_cof_matrix(yt, (0 - xs) % W, T0, -S0, BB, AA, W);
        assert(BB * T0 - AA * (-S0) == S0 * AA + T0 * BB) by(nonlinear_arith);
    }/*-*/
    if even {
        t0 = Uint::ZERO() - t0;
    } else {
        s0 = Uint::ZERO() - s0;
    }
    if swapped {
        swap(&mut s0, &mut t0);
        even = !even;
    }
    (a, s0, t0, even)
}
//@ end

} // verus!
fn main() {}

// unit lehmer: src/algorithms/gcd/matrix.rs — the Lehmer update matrix: IDENTITY, from_u64 (Euclid's extended algorithm on
// two machine words: the matrix `from` uses for operands of at most 64 bits) and compose  (C12)
#![allow(non_snake_case)]
use vstd::prelude::*;
use vstd::arithmetic::mul::*;
use vstd::arithmetic::power2::*;
use vstd::arithmetic::div_mod::*;
use vstd::bits::*;
use vstd::std_specs::cmp::*;
use vstd::std_specs::ops::*;
verus! {
//@ include lib/base.rs

//@ extract src/lib.rs struct Uint
pub struct Uint<const BITS: usize, const LIMBS: usize> { pub
    limbs: [u64; LIMBS],
}
//@ end
//@ include lib/uint_spec.rs
//@ include lib/uint_ops.rs

impl<const BITS: usize, const LIMBS: usize> Uint<BITS, LIMBS> {
    // ASSUMED (label A): the generic conversion `Uint::from(u64)` (trait-generic plumbing over TryFrom<u64>, which unit conv proves):
    // panics unless the value fits, else yields it
    #[verifier::external_body]
    pub fn from(v: u64) -> (r: Self)
        requires (v as nat) < pow2(BITS as nat)
        ensures r.wf(), r.val() == v
    { unimplemented!() }
    // ASSUMED (label A): `x.try_into().unwrap()` to u64 / u128 (TryFrom<Uint> for the primitive types: to_int! macro, C07, Kani per width):
    // panics unless the value fits, else yields it. The target type is the callee's parameter type (declared rewrites below).
    #[verifier::external_body]
    pub fn unwrap_u64(self) -> (r: u64)
        requires self.wf(), self.val() < 0x1_0000_0000_0000_0000
        ensures r == self.val()
    { unimplemented!() }
    #[verifier::external_body]
    pub fn unwrap_u128(self) -> (r: u128)
        requires self.wf(), self.val() < 0x1_0000_0000_0000_0000 * 0x1_0000_0000_0000_0000
        ensures r == self.val()
    { unimplemented!() }
//@ import bitlen bit_len
}

//@ extract src/algorithms/gcd/matrix.rs struct Matrix
pub struct Matrix(pub u64, pub u64, pub u64, pub u64, pub bool);
//@ end
pub type LehmerMatrix = Matrix;

//@ include lib/lehmer_spec.rs

// one Euclid half-step on the invariants of from_u64:
//   r0 = q00*A - q01*B,  r1 = q11*B - q10*A,  q00*q11 - q01*q10 = 1,  q00*r1 + q10*r0 = B,  q01*r1 + q11*r0 = A
pub proof fn lemma_half_step(aa: int, bb: int, r0: int, r1: int, q: int, q00: int, q01: int, q10: int, q11: int)
    requires
        r0 == q00 * aa - q01 * bb, r1 == q11 * bb - q10 * aa,
        q00 * q11 - q01 * q10 == 1,
        q00 * r1 + q10 * r0 == bb, q01 * r1 + q11 * r0 == aa,
    ensures ({
        let n00 = q00 + q * q10; let n01 = q01 + q * q11; let n0 = r0 - q * r1;
        &&& n0 == n00 * aa - n01 * bb
        &&& n00 * q11 - n01 * q10 == 1
        &&& n00 * r1 + q10 * n0 == bb
        &&& n01 * r1 + q11 * n0 == aa
    })
{
    let n00 = q00 + q * q10; let n01 = q01 + q * q11; let n0 = r0 - q * r1;
    // n0 == r0 - q*r1 == (q00 + q*q10)*A - (q01 + q*q11)*B
    lemma_mul_is_distributive_add_other_way(aa, q00, q * q10);
    lemma_mul_is_distributive_add_other_way(bb, q01, q * q11);
    lemma_mul_is_associative(q, q10, aa); lemma_mul_is_associative(q, q11, bb);
    lemma_mul_is_distributive_sub(q, q11 * bb, q10 * aa);
    assert(n0 == n00 * aa - n01 * bb);
    // determinant
    lemma_mul_is_distributive_add_other_way(q11, q00, q * q10);
    lemma_mul_is_distributive_add_other_way(q10, q01, q * q11);
    lemma_mul_is_associative(q, q10, q11); lemma_mul_is_associative(q, q11, q10);
    lemma_mul_is_commutative(q10, q11);
    assert(n00 * q11 - n01 * q10 == 1);
    // the two bound identities
    lemma_mul_is_distributive_add_other_way(r1, q00, q * q10);
    lemma_mul_is_distributive_sub(q10, r0, q * r1);
    lemma_mul_is_associative(q, q10, r1); lemma_mul_is_associative(q10, q, r1); lemma_mul_is_commutative(q, q10);
    assert(n00 * r1 + q10 * n0 == bb);
    lemma_mul_is_distributive_add_other_way(r1, q01, q * q11);
    lemma_mul_is_distributive_sub(q11, r0, q * r1);
    lemma_mul_is_associative(q, q11, r1); lemma_mul_is_associative(q11, q, r1); lemma_mul_is_commutative(q, q11);
    assert(n01 * r1 + q11 * n0 == aa);
}

// x*y <= z with y >= 1 bounds x
pub proof fn lemma_bound_from_product(x: int, y: int, rest: int, z: int)
    requires x * y + rest == z, y >= 1, rest >= 0, x >= 0
    ensures x <= z
{
    assert(x * y >= x) by(nonlinear_arith) requires x >= 0, y >= 1;
}

impl Matrix {
//@ extract src/algorithms/gcd/matrix.rs const IDENTITY
    pub fn IDENTITY ( ) -> /*+*/(r:/*-*/ Self/*+*/)
        ensures is_identity(r), r == Matrix(1, 0, 0, 1, true)/*-*/
    { Self(1, 0, 0, 1, true) }
//@ end

//@ extract src/algorithms/gcd/matrix.rs fn from_u64 consts=IDENTITY cprefix=Matrix
    /*+*/#[verifier::loop_isolation(false)]/*-*/
    pub fn from_u64(r0: u64, r1: u64) -> /*+*/(m:/*-*/ Self/*+*/)
        requires r0 >= r1
        ensures
            r1 == 0 ==> is_identity(m),
            r1 != 0 ==> lehmer_ok(m, r0 as int, r1 as int),/*-*/
    { let mut r0 = r0 ; let mut r1 = r1 ;
        /*+*/let ghost aa = r0 as int; let ghost bb = r1 as int;/*-*/
        vassert (r0 >= r1 );
        if r1 == 0_u64 {
            return Matrix::IDENTITY();
        }
        let mut q00 = 1_u64;
        let mut q01 = 0_u64;
        let mut q10 = 0_u64;
        let mut q11 = 1_u64;
        /*+*/proof {
            assert(1 * aa - 0 * bb == aa && 1 * bb - 0 * aa == bb) by(nonlinear_arith);
            assert(1 * bb + 0 * aa == bb && 0 * bb + 1 * aa == aa) by(nonlinear_arith);
        }/*-*/
        loop
            /*+*/invariant
                1 <= bb <= aa <= u64::MAX,
                r0 >= r1 >= 1,
                r0 as int == q00 as int * aa - q01 as int * bb,
                r1 as int == q11 as int * bb - q10 as int * aa,
                q00 as int * q11 as int - q01 as int * q10 as int == 1,
                q00 as int * r1 as int + q10 as int * r0 as int == bb,
                q01 as int * r1 as int + q11 as int * r0 as int == aa,
                sgcd(r0 as nat, r1 as nat) == sgcd(aa as nat, bb as nat),
                r0 as int <= aa,
            decreases r1/*-*/
        {
            /*+*/let ghost r0i = r0 as int; let ghost r1i = r1 as int;
            let ghost a00 = q00 as int; let ghost a01 = q01 as int; let ghost a10 = q10 as int; let ghost a11 = q11 as int;/*-*/
            let q = r0 / r1;
            /*+*/proof {
                lemma_fundamental_div_mod(r0i, r1i); lemma_mod_bound(r0i, r1i);
                assert(q as int >= 1 && 0 <= q as int * r1i <= r0i) by(nonlinear_arith)
                    requires r0i == r1i * q as int + r0i % r1i, 0 <= r0i % r1i < r1i, r0i >= r1i, r1i >= 1, q as int >= 0;
                lemma_half_step(aa, bb, r0i, r1i, q as int, a00, a01, a10, a11);
                let n0 = r0i - q as int * r1i;
                assert(n0 == r0i % r1i) by(nonlinear_arith) requires r0i == r1i * q as int + r0i % r1i, n0 == r0i - q as int * r1i;
                // the new cofactors are bounded by B resp. A, hence fit a word
                let n00 = a00 + q as int * a10; let n01 = a01 + q as int * a11;
                assert(q as int * a10 >= 0 && q as int * a11 >= 0) by(nonlinear_arith) requires q as int >= 0, a10 >= 0, a11 >= 0;
                assert(a10 * n0 >= 0 && a11 * n0 >= 0) by(nonlinear_arith) requires n0 >= 0, a10 >= 0, a11 >= 0;
                lemma_bound_from_product(n00, r1i, a10 * n0, bb);
                lemma_bound_from_product(n01, r1i, a11 * n0, aa);
                assert(sgcd(r0i as nat, r1i as nat) == sgcd(r1i as nat, (r0i % r1i) as nat));
            }/*-*/
            r0 -= q * r1;
            q00 += q * q10;
            q01 += q * q11;
            if r0 == 0_u64 {
                /*+*/proof {
                    // (c, d) = (r1, 0) under the sign pattern `false` of Matrix(q10, q11, q00, q01, false)
                    assert(a10 * (q01 as int) - a11 * (q00 as int) == -1) by(nonlinear_arith)
                        requires (q00 as int) * a11 - (q01 as int) * a10 == 1;
                    assert(q00 as int >= a10 && q01 as int >= a11) by(nonlinear_arith)
                        requires q00 as int == a00 + q as int * a10, q01 as int == a01 + q as int * a11, q as int >= 1, a00 >= 0, a01 >= 0, a10 >= 0, a11 >= 0;
                    assert(sgcd(r1i as nat, 0) == r1i as nat);
                }/*-*/
                return Matrix(q10, q11, q00, q01, false);
            }
            /*+*/let ghost r0n = r0 as int;
            let ghost b00 = q00 as int; let ghost b01 = q01 as int;/*-*/
            let q = r1 / r0;
            /*+*/proof {
                lemma_fundamental_div_mod(r1i, r0n); lemma_mod_bound(r1i, r0n);
                assert(q as int >= 1 && 0 <= q as int * r0n <= r1i) by(nonlinear_arith)
                    requires r1i == r0n * q as int + r1i % r0n, 0 <= r1i % r0n < r0n, r1i > r0n, r0n >= 1, q as int >= 0;
                // the mirrored half-step: swap the roles of the rows
                assert(a11 * b00 - a10 * b01 == 1) by(nonlinear_arith) requires b00 * a11 - b01 * a10 == 1;
                assert(a10 * r0n + b00 * r1i == bb && a11 * r0n + b01 * r1i == aa);
                lemma_half_step(bb, aa, r1i, r0n, q as int, a11, a10, b01, b00);
                let n1 = r1i - q as int * r0n;
                assert(n1 == r1i % r0n) by(nonlinear_arith) requires r1i == r0n * q as int + r1i % r0n, n1 == r1i - q as int * r0n;
                let n11 = a11 + q as int * b01; let n10 = a10 + q as int * b00;
                assert(q as int * b00 >= 0 && q as int * b01 >= 0) by(nonlinear_arith) requires q as int >= 0, b00 >= 0, b01 >= 0;
                assert(b00 * n1 >= 0 && b01 * n1 >= 0) by(nonlinear_arith) requires n1 >= 0, b00 >= 0, b01 >= 0;
                lemma_bound_from_product(n11, r0n, b01 * n1, aa);
                lemma_bound_from_product(n10, r0n, b00 * n1, bb);
                assert(sgcd(r1i as nat, r0n as nat) == sgcd(r0n as nat, (r1i % r0n) as nat));
            }/*-*/
            r1 -= q * r0;
            q10 += q * q00;
            q11 += q * q01;
            /*+*/proof {
                assert(b00 * (q11 as int) - b01 * (q10 as int) == 1) by(nonlinear_arith)
                    requires (q11 as int) * b00 - (q10 as int) * b01 == 1;
            }/*-*/
            if r1 == 0_u64 {
                /*+*/proof {
                    assert(q10 as int >= b00 && q11 as int >= b01) by(nonlinear_arith)
                        requires q10 as int == a10 + q as int * b00, q11 as int == a11 + q as int * b01, q as int >= 1, a10 >= 0, a11 >= 0, b00 >= 0, b01 >= 0;
                    assert(sgcd(r0n as nat, 0) == r0n as nat);
                }/*-*/
                return Matrix(q00, q01, q10, q11, true);
            }
        }
    }
//@ end
    // (x*u - y*v) mod W through the wrapping operators:  ((x*u) mod W - (y*v) mod W) mod W
    pub proof fn lemma_wrapping_row(x: int, u: int, y: int, v: int, w: int)
        requires w > 0
        ensures (((x * u) % w) - ((y * v) % w)) % w == (x * u - y * v) % w
    {
        lemma_sub_mod_noop(x * u, y * v, w);
    }

//@ extract src/algorithms/gcd/matrix.rs fn apply
    pub fn apply<const BITS: usize, const LIMBS: usize>(
        &self,
        a: &mut Uint<BITS, LIMBS>,
        b: &mut Uint<BITS, LIMBS>,
    )
        /*+*/requires old(a).wf(), old(b).wf(),
            // the entries must fit the type (Uint::from panics otherwise); matrices produced by `from` have entries <= a
            BITS > 0 ==> (self.0 as nat) < pow2(BITS as nat) && (self.1 as nat) < pow2(BITS as nat) && (self.2 as nat) < pow2(BITS as nat) && (self.3 as nat) < pow2(BITS as nat),
        ensures final(a).wf(), final(b).wf(),
            final(a).val() as int == maps(*self, old(a).val() as int, old(b).val() as int).0 % m2(BITS),
            final(b).val() as int == maps(*self, old(a).val() as int, old(b).val() as int).1 % m2(BITS),/*-*/
    {
        /*+*/let ghost av = a.val() as int; let ghost bv = b.val() as int; let ghost W = m2(BITS);/*-*/
        if BITS == 0 {
            /*+*/proof { lemma2_to64(); a.lemma_wf_lt(); b.lemma_wf_lt(); }/*-*/
            return;
        }
        /*+*/proof {
            lemma_pow2_pos(BITS as nat);
            Self::lemma_wrapping_row(self.0 as int, av, self.1 as int, bv, W);
            Self::lemma_wrapping_row(self.3 as int, bv, self.2 as int, av, W);
            Self::lemma_wrapping_row(self.1 as int, bv, self.0 as int, av, W);
            Self::lemma_wrapping_row(self.2 as int, av, self.3 as int, bv, W);
        }/*-*/
        let (c, d) = if self.4 {
            (
                Uint::from(self.0) * *a - Uint::from(self.1) * *b,
                Uint::from(self.3) * *b - Uint::from(self.2) * *a,
            )
        } else {
            (
                Uint::from(self.1) * *b - Uint::from(self.0) * *a,
                Uint::from(self.2) * *a - Uint::from(self.3) * *b,
            )
        };
        *a = c;
        *b = d;
    }
//@ end
//@ import jebelean from_u128_prefix

//@ extract src/algorithms/gcd/matrix.rs fn from ctx="impl Matrix" rewrite="Self :: from_u64 ( a . try_into ( ) . unwrap ( ) , b . try_into ( ) . unwrap ( ) )" => "Self::from_u64(a.unwrap_u64(), b.unwrap_u64())" #1 rewrite="Self :: from_u128_prefix ( a . try_into ( ) . unwrap ( ) , b . try_into ( ) . unwrap ( ) )" => "Self::from_u128_prefix(a.unwrap_u128(), b.unwrap_u128())" #2
    pub fn from<const BITS: usize, const LIMBS: usize>(
        a: Uint<BITS, LIMBS>,
        b: Uint<BITS, LIMBS>,
    ) -> /*+*/(m:/*-*/ Self/*+*/)
        requires a.wf(), b.wf(), a.val() >= b.val()
        ensures !is_identity(m) ==> lehmer_ok(m, a.val() as int, b.val() as int)/*-*/
    {
        vassert (a >= b );
        let s = a.bit_len();
        /*+*/let ghost av = a.val() as int; let ghost bv = b.val() as int;
        proof {
            lemma2_to64(); lemma_pow2_64();
            lemma_pow2_adds(64, 64);
            if s <= 64 && av != 0 { if s < 64 { lemma_pow2_strictly_increases(s as nat, 64); } }
            if s <= 128 && av != 0 { if s < 128 { lemma_pow2_strictly_increases(s as nat, 128); } }
            if s > 64 { lemma_pow2_strictly_increases(63, (s - 1) as nat); if s > 65 { } }
        }/*-*/
        if s <= 64 {
            Self::from_u64(a.unwrap_u64(), b.unwrap_u64())
        } else if s <= 128 {
            /*+*/proof {
                assert(av >= 0x1_0000_0000_0000_0000) by { if s > 65 { lemma_pow2_strictly_increases(64, (s - 1) as nat); } };
                assert(pow2(0) == 1);
                assert(is_prefix(av, bv, av, bv, 0));
            }/*-*/
            Self::from_u128_prefix(a.unwrap_u128(), b.unwrap_u128())
        } else {
            /*+*/let ghost k = (s - 128) as nat;
            proof {
                // floor(a / 2^(s-128)) has exactly 128 bits: 2^127 <= . < 2^128
                lemma_pow2_pos(k);
                lemma_pow2_adds(k, 128); lemma_pow2_adds(k, 127);
                let pk = pow2(k) as int;
                assert(k + 127 == s - 1 && k + 128 == s);
                lemma_mul_is_commutative(pow2(127) as int, pk);
                lemma_mul_is_commutative(pow2(128) as int, pk);
                assert(pow2(127) as int * pk == pow2((s - 1) as nat) as int);
                assert(pow2(128) as int * pk == pow2(s as nat) as int);
                assert(pow2(127) as int * pk <= av && av < pow2(128) as int * pk);
                lemma_div_is_ordered(pow2(127) as int * pk, av, pk);
                lemma_div_multiples_vanish(pow2(127) as int, pk);
                lemma_mul_is_commutative(pow2(127) as int, pk);
                lemma_mul_is_commutative(pow2(128) as int, pk);
                lemma_div_by_multiple_is_strongly_ordered(av, pow2(128) as int * pk, pow2(128) as int, pk);
                lemma_div_multiples_vanish(pow2(128) as int, pk);
                lemma_div_is_ordered(bv, av, pk);
                lemma_pow2_strictly_increases(64, 127);
                lemma_div_pos_is_pos(bv, pk);
            }/*-*/
            let a = a >> (s - 128);
            let b = b >> (s - 128);
            /*+*/proof { assert(is_prefix(a.val() as int, b.val() as int, av, bv, k)); }/*-*/
            Self::from_u128_prefix(a.unwrap_u128(), b.unwrap_u128())
        }
    }
//@ end
}

} // verus!
fn main() {}

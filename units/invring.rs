// unit invring: src/mul.rs inv_ring — Newton/Hensel lifting of the inverse modulo 2^BITS  (C02)
#![allow(non_snake_case)]
use vstd::prelude::*;
use vstd::arithmetic::power2::*;
use vstd::arithmetic::mul::*;
use vstd::arithmetic::div_mod::*;
use vstd::bits::*;
use vstd::std_specs::cmp::*;
use vstd::std_specs::ops::*;
verus! {
//@ include lib/base.rs
//@ include lib/lvlow.rs

//@ extract src/lib.rs struct Uint
pub struct Uint<const BITS: usize, const LIMBS: usize> { pub
    limbs: [u64; LIMBS],
}
//@ end

//@ include lib/uint_spec.rs
//@ include lib/uint_ops.rs

// the seed of the Newton iteration: for odd n, ((3n mod 2^64) xor 2) inverts n modulo 16
pub proof fn lemma_inv_seed(n: u64, t: u64, y: u64)
    requires n % 2 == 1, t as int == (n as int * 3) % B, y == t ^ 2
    ensures (n as int * y as int) % 16 == 1
{
    let r = (n % 16) as u64;
    let t16 = (t % 16) as u64;
    // t mod 16 == (3 * (n mod 16)) mod 16
    lemma_mod_mod(n as int * 3, 16, 0x1000_0000_0000_0000);
    assert(B == 16 * 0x1000_0000_0000_0000);
    lemma_mul_mod_noop_left(n as int, 3, 16);
    assert(t16 as int == (r as int * 3) % 16);
    // xor 2 only touches bit 1
    assert((t ^ 2) % 16 == ((t % 16) ^ 2)) by(bit_vector);
    let y16 = (y % 16) as u64;
    assert(y16 == t16 ^ 2);
    // table over the eight odd residues: t16 = 3r mod 16, y16 = t16 xor 2, r * y16 = 1 (mod 16)
    if r == 1 { assert(t16 == 3); assert(3u64 ^ 2 == 1) by(bit_vector); assert(y16 == 1); assert((1int * 1) % 16 == 1); }
    else if r == 3 { assert(t16 == 9); assert(9u64 ^ 2 == 11) by(bit_vector); assert(y16 == 11); assert((3int * 11) % 16 == 1); }
    else if r == 5 { assert(t16 == 15); assert(15u64 ^ 2 == 13) by(bit_vector); assert(y16 == 13); assert((5int * 13) % 16 == 1); }
    else if r == 7 { assert(t16 == 5); assert(5u64 ^ 2 == 7) by(bit_vector); assert(y16 == 7); assert((7int * 7) % 16 == 1); }
    else if r == 9 { assert(t16 == 11); assert(11u64 ^ 2 == 9) by(bit_vector); assert(y16 == 9); assert((9int * 9) % 16 == 1); }
    else if r == 11 { assert(t16 == 1); assert(1u64 ^ 2 == 3) by(bit_vector); assert(y16 == 3); assert((11int * 3) % 16 == 1); }
    else if r == 13 { assert(t16 == 7); assert(7u64 ^ 2 == 5) by(bit_vector); assert(y16 == 5); assert((13int * 5) % 16 == 1); }
    else { assert(r == 15); assert(t16 == 13); assert(13u64 ^ 2 == 15) by(bit_vector); assert(y16 == 15); assert((15int * 15) % 16 == 1); }
    lemma_mul_mod_noop_general(n as int, y as int, 16);
    assert((r as int * y16 as int) % 16 == 1);
}

// one lifting step: a*x = 1 (mod k1)  ==>  a * (x * (2 - a*x)) = 1 (mod k2) whenever k2 divides k1*k1 and everything is taken mod m with k2 | m
pub proof fn lemma_hensel(a: int, x: int, k1: int, k2: int, m: int, s: int, y: int)
    requires k1 >= 1, k2 >= 1, m >= 1,
        (a * x) % k1 == 1int % k1,
        exists|u: int| #[trigger] mulof(k2, u) == k1 * k1,      // k2 | k1^2
        exists|v: int| #[trigger] mulof(k2, v) == m,            // k2 | m
        s % m == (2 - (a * x) % m) % m,                          // s = 2 - a*x  (mod m)
        y % m == (x * s) % m,                                    // y = x * s    (mod m)
    ensures (a * y) % k2 == 1int % k2
{
    let u = choose|u: int| mulof(k2, u) == k1 * k1;
    let v = choose|v: int| mulof(k2, v) == m;
    // t with a*x == 1 + t*k1
    let ax = a * x;
    lemma_fundamental_div_mod(ax, k1); lemma_fundamental_div_mod(1int, k1);
    let t = ax / k1 - 1int / k1;
    assert(ax == 1 + t * k1) by(nonlinear_arith)
        requires ax == k1 * (ax / k1) + ax % k1, 1int == k1 * (1int / k1) + 1int % k1, ax % k1 == 1int % k1, t == ax / k1 - 1int / k1;
    // modulo m:  s = 2 - ax + m*j1 ,  y = x*s + m*j2
    lemma_fundamental_div_mod(ax, m);
    lemma_fundamental_div_mod(s, m); lemma_fundamental_div_mod(2 - ax % m, m);
    lemma_fundamental_div_mod(y, m); lemma_fundamental_div_mod(x * s, m);
    let j1 = s / m - (2 - ax % m) / m + ax / m;
    assert(s == 2 - ax + m * j1) by(nonlinear_arith)
        requires s == m * (s / m) + s % m, 2 - ax % m == m * ((2 - ax % m) / m) + (2 - ax % m) % m, s % m == (2 - ax % m) % m,
            ax == m * (ax / m) + ax % m, j1 == s / m - (2 - ax % m) / m + ax / m;
    let j2 = y / m - (x * s) / m;
    assert(y == x * s + m * j2) by(nonlinear_arith)
        requires y == m * (y / m) + y % m, x * s == m * ((x * s) / m) + (x * s) % m, y % m == (x * s) % m, j2 == y / m - (x * s) / m;
    // a*y == ax*s + m*(a*j2)
    assert(a * y == ax * s + m * (a * j2)) by(nonlinear_arith) requires y == x * s + m * j2, ax == a * x;
    // ax*s == ax*(2 - ax) + m*(ax*j1)
    assert(ax * s == ax * (2 - ax) + m * (ax * j1)) by(nonlinear_arith) requires s == 2 - ax + m * j1;
    // ax*(2 - ax) == 1 - (t*t)*(k1*k1)
    assert(ax * (2 - ax) == 1 - (t * t) * (k1 * k1)) by(nonlinear_arith) requires ax == 1 + t * k1;
    let w = -(t * t) * u + v * (ax * j1 + a * j2);
    assert((t * t) * (k1 * k1) == k2 * ((t * t) * u)) by(nonlinear_arith) requires k2 * u == k1 * k1;
    assert(m * (ax * j1) + m * (a * j2) == k2 * (v * (ax * j1 + a * j2))) by(nonlinear_arith) requires k2 * v == m;
    assert(k2 * w == -(k2 * ((t * t) * u)) + k2 * (v * (ax * j1 + a * j2))) by(nonlinear_arith) requires w == -(t * t) * u + v * (ax * j1 + a * j2);
    assert(a * y == 1 + k2 * w);
    lemma_mod_multiples_vanish(w, 1, k2);
}
pub open spec fn mulof(d: int, k: int) -> int { d * k }
pub open spec fn minn(a: nat, b: nat) -> nat { if a <= b { a } else { b } }

// 2^min(2p, bits) divides (2^min(p, bits))^2 and 2^bits
pub proof fn lemma_pow2_divs(p: nat, bits: nat)
    ensures exists|u: int| #[trigger] mulof(pow2(minn(2 * p, bits)) as int, u) == (pow2(minn(p, bits)) as int) * (pow2(minn(p, bits)) as int),
        exists|v: int| #[trigger] mulof(pow2(minn(2 * p, bits)) as int, v) == pow2(bits) as int,
        pow2(minn(2 * p, bits)) >= 1, pow2(minn(p, bits)) >= 1, pow2(bits) >= 1,
{
    let k2e = minn(2 * p, bits); let k1e = minn(p, bits);
    lemma_pow2_adds(k1e, k1e);
    lemma_pow2_adds(k2e, (2 * k1e - k2e) as nat);
    lemma_pow2_adds(k2e, (bits - k2e) as nat);
    lemma_pow2_pos(k2e); lemma_pow2_pos(k1e); lemma_pow2_pos(bits);
    assert(mulof(pow2(k2e) as int, pow2((2 * k1e - k2e) as nat) as int) == (pow2(k1e) as int) * (pow2(k1e) as int));
    assert(mulof(pow2(k2e) as int, pow2((bits - k2e) as nat) as int) == pow2(bits) as int);
}

impl<const BITS: usize, const LIMBS: usize> Uint<BITS, LIMBS> {
//@ import core ZERO
//@ import core MAX
//@ import core MASK
//@ import core apply_mask
//@ import core masked
//@ import basics ONE
//@ import basics is_zero
//@ import basics bit

    // ASSUMED (label A): Self::from(2) (generic UintTryFrom conversion; C07, Kani per width) - the value 2 when it fits
    #[verifier::external_body]
    pub fn from(value: i32) -> (r: Self)
        requires 0 <= value, (value as int) < pow2(BITS as nat)
        ensures r.wf(), r.val() == value
    { unimplemented!() }

    // one Newton step on machine words:  n*x = 1 (mod 2^p)  ==>  n*y = 1 (mod 2^(2p))  for y = x * (2 - n*x) in wrapping arithmetic, 2p <= 64
    pub proof fn lemma_newton_step(n: u64, x: u64, y: u64, p: nat)
        requires 2 * p <= 64, p >= 1,
            (n as int * x as int) % (pow2(p) as int) == 1,
            y as int == (x as int * ((2 - (n as int * x as int) % B) % B)) % B,
        ensures (n as int * y as int) % (pow2(2 * p) as int) == 1
    {
        lemma_pow2_64();
        lemma_pow2_divs(p, 64);
        assert(minn(p, 64) == p && minn(2 * p, 64) == 2 * p);
        let sv = (2 - (n as int * x as int) % B) % B;
        lemma_mod_twice(2 - (n as int * x as int) % B, B);
        lemma_mod_twice(x as int * sv, B);
        lemma_pow2_strictly_increases(0, p); lemma_pow2_strictly_increases(0, 2 * p); lemma2_to64();
        lemma_small_mod(1, pow2(p)); lemma_small_mod(1, pow2(2 * p));
        lemma_small_mod(y as nat, B as nat);
        lemma_hensel(n as int, x as int, pow2(p) as int, pow2(2 * p) as int, B, sv, y as int);
    }

//@ extract src/mul.rs fn inv_ring rewrite="const W2 : Wrapping < u64 > = Wrapping ( 2 ) ;" => "let W2: u64 = 2;" #1 rewrite="const W3 : Wrapping < u64 > = Wrapping ( 3 ) ;" => "let W3: u64 = 3;" #1 rewrite="let n = Wrapping ( self . limbs [ 0 ] ) ;" => "let n: u64 = self.limbs[0];" #1 rewrite="let mut inv = ( n * W3 ) ^ W2 ;" => "let mut inv: u64 = n.wrapping_mul(W3) ^ W2;" #1 rewrite="inv *= W2 - n * inv ;" => "inv = inv.wrapping_mul(W2.wrapping_sub(n.wrapping_mul(inv)));" rewrite="n . 0 . wrapping_mul ( inv . 0 )" => "n.wrapping_mul(inv)" #? rewrite="inv . 0" => "inv" #1
    pub fn inv_ring(self) -> /*+*/(r:/*-*/ Option<Self>/*+*/)
        requires self.wf(), BITS <= usize::MAX - 63
        ensures
            r.is_none() <==> (BITS == 0 || self.val() % 2 == 0),
            r.is_some() ==> r.unwrap().wf() && ((self.val() * r.unwrap().val()) as int) % m2(BITS) == 1int % m2(BITS),/*-*/
    {
        /*+*/proof {
            if BITS > 0 {
                assert(LIMBS >= 1);
                lemma_lv_first(self.limbs@, LIMBS as nat);
                let w = self.limbs[0];
                assert((w & 1 == 0) == (w % 2 == 0)) by(bit_vector);
            }
        }/*-*/
        if BITS == 0 || self.limbs[0] & 1 == 0 {
            return None;
        }
        let mut result = Self::ZERO();
        /*+*/let ghost z = result;/*-*/
        result.limbs[0] = {
            let W2: u64 = 2;
            let W3: u64 = 3;
            let n: u64 = self.limbs[0];
            let mut inv: u64 = n.wrapping_mul(W3) ^ W2;
            /*+*/proof {
                lemma_pow2_64(); lemma2_to64();
                lemma_inv_seed(n, n.wrapping_mul(W3), inv);
                assert(pow2(4) == 16 && pow2(8) == 256 && pow2(16) == 65536 && pow2(32) == 0x1_0000_0000);
            }
            let ghost i0 = inv;/*-*/
            inv = inv.wrapping_mul(W2.wrapping_sub(n.wrapping_mul(inv)));
            /*+*/proof { Self::lemma_newton_step(n, i0, inv, 4); }
            let ghost i1 = inv;/*-*/
            inv = inv.wrapping_mul(W2.wrapping_sub(n.wrapping_mul(inv)));
            /*+*/proof { Self::lemma_newton_step(n, i1, inv, 8); }
            let ghost i2 = inv;/*-*/
            inv = inv.wrapping_mul(W2.wrapping_sub(n.wrapping_mul(inv)));
            /*+*/proof { Self::lemma_newton_step(n, i2, inv, 16); }
            let ghost i3 = inv;/*-*/
            inv = inv.wrapping_mul(W2.wrapping_sub(n.wrapping_mul(inv)));
            /*+*/proof { Self::lemma_newton_step(n, i3, inv, 32); lemma_pow2_64(); }/*-*/
            vassert ( (n.wrapping_mul(inv) ) == ( 1 ) );
            inv
        };
        /*+*/let ghost a = self.val() as int; let ghost mm = m2(BITS);/*-*/
        let mut correct_limbs = 1;
        /*+*/proof {
            // a * result == 1 (mod 2^min(64, BITS)); result is wf when LIMBS >= 2 (top limb still zero)
            lemma_lv_single(result.limbs@, LIMBS as nat);
            lemma_lv_low_limb(self.limbs@, LIMBS as nat);
            let x0 = result.limbs[0] as int; let a0 = self.limbs[0] as int;
            lemma_pow2_64();
            // a == a0 (mod B)  ==>  a * x0 == a0 * x0 == 1 (mod B)
            lemma_mul_mod_noop_left(a, x0, B);
            lemma_mul_mod_noop_left(a0, x0, B);
            assert((a * x0) % B == 1);
            lemma_pow2_pos(BITS as nat);
            assert(pow2(64) as int == B);
            assert(1int % B == 1);
            assert((a * x0) % (pow2(64) as int) == 1int % (pow2(64) as int));
            lemma_mod_of_divisor(a * x0, minn(64, BITS as nat), 64);
            if LIMBS >= 2 { assert(result.limbs[LIMBS - 1] == 0); }
        }/*-*/
        while correct_limbs < LIMBS
            /*+*/invariant
                BITS > 0, BITS <= usize::MAX - 63, self.wf(), a == self.val(), mm == m2(BITS), LIMBS >= 2 ==> result.wf(), Self::sized(),
                1 <= correct_limbs, correct_limbs <= 2 * LIMBS,
                (a * result.val() as int) % (pow2(minn(64 * correct_limbs as nat, BITS as nat)) as int) == 1int % (pow2(minn(64 * correct_limbs as nat, BITS as nat)) as int),
            decreases 2 * LIMBS - correct_limbs/*-*/
        {
            /*+*/let ghost x = result.val() as int;
            let ghost p = 64 * correct_limbs as nat;
            proof {
                assert(LIMBS >= 2); assert(BITS > 64);
                lemma_pow2_strictly_increases(1, BITS as nat); lemma2_to64();
            }/*-*/
            result *= Self::from(2) - self * result;
            /*+*/proof {
                let y = result.val() as int;
                assert(y == (x * ((2 - (a * x) % mm) % mm)) % mm);
                lemma_pow2_divs(p, BITS as nat);
                let sv = (2 - (a * x) % mm) % mm;
                lemma_pow2_pos(BITS as nat);
                lemma_mod_twice(2 - (a * x) % mm, mm);
                lemma_mod_twice(x * sv, mm);
                lemma_hensel(a, x, pow2(minn(p, BITS as nat)) as int, pow2(minn(2 * p, BITS as nat)) as int, mm, sv, y);
            }/*-*/
            correct_limbs *= 2;
        }
        /*+*/let ghost x = result.val() as int;/*-*/
        result.apply_mask();
        /*+*/proof {
            // 64*correct_limbs >= 64*LIMBS >= BITS : congruence modulo 2^BITS; masking keeps it
            assert(minn(64 * correct_limbs as nat, BITS as nat) == BITS as nat);
            lemma_pow2_pos(BITS as nat);
            lemma_mul_mod_noop_right(a, x, mm);
        }/*-*/
        Some(result)
    }
//@ end
}

pub proof fn lemma_lv_first(s: Seq<u64>, n: nat)
    requires 1 <= n <= s.len()
    ensures lv(s, n) % 2 == (s[0] as nat) % 2, lv(s, n) >= s[0] as nat
    decreases n
{
    if n == 1 {
        lemma2_to64();
        assert(lv(s, 1) == lv(s, 0) + (s[0] as nat) * pow2(0));
        assert((s[0] as nat) * 1 == s[0] as nat) by(nonlinear_arith);
    } else {
        lemma_lv_first(s, (n - 1) as nat);
        let w = pow2(64 * (n - 1) as nat);
        lemma_pow2_adds(1, (64 * (n - 1) - 1) as nat); lemma2_to64();
        let h = pow2((64 * (n - 1) - 1) as nat);
        assert(w == 2 * h);
        let t = (s[n - 1] as nat) * w;
        assert(t == 2 * ((s[n - 1] as nat) * h)) by(nonlinear_arith) requires t == (s[n - 1] as nat) * w, w == 2 * h;
        lemma_mod_multiples_vanish(((s[n - 1] as nat) * h) as int, lv(s, (n - 1) as nat) as int, 2);
    }
}
// x == 1 (mod 2^big)  ==>  x == 1 (mod 2^small) for small <= big
pub proof fn lemma_mod_of_divisor(x: int, small: nat, big: nat)
    requires small <= big, x % (pow2(big) as int) == 1int % (pow2(big) as int)
    ensures x % (pow2(small) as int) == 1int % (pow2(small) as int)
{
    lemma_pow2_adds(small, (big - small) as nat);
    lemma_pow2_pos(small); lemma_pow2_pos((big - small) as nat); lemma_pow2_pos(big);
    let ks = pow2(small) as int; let kb = pow2(big) as int; let q = pow2((big - small) as nat) as int;
    lemma_fundamental_div_mod(x, kb); lemma_fundamental_div_mod(1int, kb);
    let t = x / kb - 1int / kb;
    assert(x == 1 + ks * (q * t)) by(nonlinear_arith)
        requires x == kb * (x / kb) + x % kb, 1int == kb * (1int / kb) + 1int % kb, x % kb == 1int % kb, t == x / kb - 1int / kb, kb == ks * q;
    lemma_mod_multiples_vanish(q * t, 1, ks);
}

} // verus!
fn main() {}

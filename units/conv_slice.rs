// unit conv_slice: src/lib.rs limb-slice constructors and src/from.rs Uint-to-Uint conversions built on them  (C07)
#![allow(non_snake_case)]
use vstd::prelude::*;
use vstd::arithmetic::power::*;
use vstd::arithmetic::power2::*;
use vstd::arithmetic::mul::*;
use vstd::arithmetic::div_mod::*;
use vstd::bits::*;
verus! {
//@ include lib/base.rs
//@ include lib/lvr.rs
//@ include lib/lvr_nz.rs

//@ extract src/lib.rs struct Uint
pub struct Uint<const BITS: usize, const LIMBS: usize> { pub
    limbs: [u64; LIMBS],
}
//@ end

//@ include lib/uint_spec.rs
//@ include lib/masked.rs

//@ extract src/from.rs enum ToUintError
pub enum ToUintError<T> {
    ValueTooLarge(usize, T),
    ValueNegative(usize, T),
    NotANumber(usize),
}
//@ end

//@ include lib/conv_spec.rs

//@ extract src/from.rs enum FromUintError
pub enum FromUintError<T> {
    Overflow(usize, T, T),
}
//@ end

// the number a little-endian limb slice denotes
pub open spec fn sval(s: Seq<u64>) -> int { lvr(s, 0, s.len() as int) }

// N14 wrappers: each body IS the replaced expression; the contracts are ASSUMED facts (label A) about std's slice API
// (copy_from_slice, split_at, Iterator::any), cross-checked by Kani (core_specs, lengths <= 6).
#[verifier::external_body]
pub fn copy_prefix<const N: usize>(limbs: &mut [u64; N], slice: &[u64])
    requires slice.len() <= N
    ensures forall|j: int| 0 <= j < slice.len() ==> final(limbs)[j] == slice[j],
        forall|j: int| slice.len() <= j < N ==> final(limbs)[j] == old(limbs)[j],
{ limbs[..slice.len()].copy_from_slice(slice) }
#[verifier::external_body]
pub fn copy_all<const N: usize>(limbs: &mut [u64; N], head: &[u64])
    requires head.len() == N
    ensures final(limbs)@ == head@
{ limbs.copy_from_slice(head) }
#[verifier::external_body]
pub fn split_at_w(s: &[u64], mid: usize) -> (r: (&[u64], &[u64]))
    requires mid <= s.len()
    ensures r.0@ == s@.subrange(0, mid as int), r.1@ == s@.subrange(mid as int, s.len() as int)
{ s.split_at(mid) }
#[verifier::external_body]
pub fn any_nonzero(tail: &[u64]) -> (r: bool)
    ensures r == (exists|j: int| 0 <= j < tail.len() && tail[j] != 0)
{ tail.iter().any(|&limb| limb != 0) }

impl<const BITS: usize, const LIMBS: usize> Uint<BITS, LIMBS> {
//@ import core LIMBS
//@ import core MASK
//@ import core MAX
//@ import core from_limbs
//@ import core as_limbs

//@ extract src/lib.rs fn overflowing_from_limbs_slice bools=overflow rewrite="limbs [ .. slice . len ( ) ] . copy_from_slice ( slice )" => "copy_prefix(&mut limbs, slice)" #1 rewrite="slice . split_at ( LIMBS )" => "split_at_w(slice, LIMBS)" #1 rewrite="limbs . copy_from_slice ( head )" => "copy_all(&mut limbs, head)" #1 rewrite="tail . iter ( ) . any ( | & limb | limb != 0 )" => "any_nonzero(tail)" #1
    pub fn overflowing_from_limbs_slice(slice: &[u64]) -> /*+*/(r:/*-*/ (Self, bool)/*+*/)
        requires Self::sized(), BITS <= usize::MAX - 63
        ensures
            // the value the slice denotes, reduced mod 2^BITS, and whether it was out of range
            r.0.wf(), r.0.val() as int == sval(slice@) % (pow2(BITS as nat) as int),
            r.1 == (sval(slice@) >= pow2(BITS as nat)),/*-*/
    {
        /*+*/let ghost n = LIMBS as int; let ghost len = slice.len() as int;
        let ghost m = pow2(BITS as nat) as int;
        proof { lemma_pow2_pos(BITS as nat); lemma_lvr_bound(slice@, 0, len); }/*-*/
        if slice.len() < LIMBS {
            let mut limbs = [0; LIMBS];
            copy_prefix(&mut limbs, slice);
            /*+*/proof {
                lemma_lvr_trailing_zeros(limbs@, 0, len, n);
                lemma_lvr_ext(limbs@, slice@, 0, len);
                lemma_lvr_is_lv(limbs@, LIMBS as nat);
                let u = Uint::<BITS, LIMBS> { limbs: limbs };
                assert(u.wf());
                u.lemma_wf_lt();
                lemma_small_mod(u.val(), m as nat);
            }/*-*/
            (Self::from_limbs(limbs), false)
        } else {
            let (head, tail) = split_at_w(slice, LIMBS);
            let mut limbs = [0; LIMBS];
            copy_all(&mut limbs, head);
            let mut overflow = any_nonzero(tail);
            /*+*/let ghost limbs0 = limbs;
            let ghost u0 = Uint::<BITS, LIMBS> { limbs: limbs0 };
            let ghost H = lvr(limbs0@, 0, n); let ghost T = lvr(slice@, n, len);
            proof {
                // V == H + bp(n) * T,  T >= 1 <=> some tail limb is non-zero
                lemma_lvr_split(slice@, 0, n, len);
                assert(forall|j: int| 0 <= j < n ==> limbs0@[j] == slice@[j]) by { assert(forall|j: int| 0 <= j < n ==> head@[j] == slice@[j]); }
                lemma_lvr_ext(limbs0@, slice@, 0, n);
                lemma_lvr_bound(slice@, n, len); lemma_lvr_bound(limbs0@, 0, n);
                if overflow {
                    let j = choose|j: int| 0 <= j < tail.len() && tail[j] != 0;
                    assert(slice@[n + j] == tail@[j]);
                    lemma_lvr_nonzero(slice@, n, len, n + j);
                } else {
                    assert forall|i: int| n <= i < len implies slice@[i] == 0 by { assert(tail@[i - n] == slice@[i]); }
                    lemma_lvr_zero(slice@, n, len);
                }
                lemma_lvr_is_lv(limbs0@, LIMBS as nat);
                // bp(n) is a multiple of 2^BITS
                lemma_bp_is_pow2(LIMBS as nat);
                let d = (64 * n - BITS) as nat;
                lemma_pow2_adds(BITS as nat, d); lemma_pow2_pos(d);
                let pd = pow2(d) as int;
                assert(bp(n) == m * pd);
                assert(bp(n) * T == m * (pd * T)) by(nonlinear_arith) requires bp(n) == m * pd;
                lemma_mod_multiples_vanish(pd * T, H, m);
                assert((H + m * (pd * T)) % m == H % m) by { assert(m * (pd * T) + H == H + m * (pd * T)); }
                if T >= 1 { assert(bp(n) * T >= m) by(nonlinear_arith) requires bp(n) == m * pd, pd >= 1, T >= 1, m >= 1; }
                else { assert(bp(n) * 0 == 0) by(nonlinear_arith); }
                if BITS == 0 { lemma2_to64(); assert(H == 0); }
                else { u0.lemma_wf_iff_lt(); }
            }/*-*/
            if LIMBS > 0 {
                overflow = overflow || ( limbs[LIMBS - 1] > Self::MASK() );
                limbs[LIMBS - 1] &= Self::MASK();
            }
            /*+*/proof {
                let u1 = Uint::<BITS, LIMBS> { limbs: limbs };
                if LIMBS > 0 {
                    let x = limbs0[n - 1];
                    assert(x & u64::MAX == x) by(bit_vector);
                    if !(spec_mask(BITS) != u64::MAX) { assert(limbs@ =~= limbs0@); }
                }
                u0.lemma_masked(u1);
                if BITS == 0 { assert(m == 1) by { lemma2_to64(); } }
            }/*-*/
            (Self::from_limbs(limbs), overflow)
        }
    }
//@ end

//@ extract src/lib.rs fn from_limbs_slice
    pub fn from_limbs_slice(slice: &[u64]) -> /*+*/(r:/*-*/ Self/*+*/)
        requires Self::sized(), BITS <= usize::MAX - 63,
            // documented: panics if the value is too large; no panic is the obligation here
            sval(slice@) < pow2(BITS as nat)
        ensures r.wf(), r.val() as int == sval(slice@)/*-*/
    {
        /*+*/proof { lemma_lvr_bound(slice@, 0, slice.len() as int); lemma_small_mod(sval(slice@) as nat, pow2(BITS as nat)); }/*-*/
        match Self::overflowing_from_limbs_slice(slice) {
            (n, false) => n,
            (_, true) => vpanic ( ),
        }
    }
//@ end

//@ extract src/lib.rs fn checked_from_limbs_slice
    pub fn checked_from_limbs_slice(slice: &[u64]) -> /*+*/(r:/*-*/ Option<Self>/*+*/)
        requires Self::sized(), BITS <= usize::MAX - 63
        ensures r.is_some() == (sval(slice@) < pow2(BITS as nat)),
            r.is_some() ==> r.unwrap().wf() && r.unwrap().val() as int == sval(slice@)/*-*/
    {
        /*+*/proof { lemma_lvr_bound(slice@, 0, slice.len() as int); if sval(slice@) < pow2(BITS as nat) { lemma_small_mod(sval(slice@) as nat, pow2(BITS as nat)); } }/*-*/
        match Self::overflowing_from_limbs_slice(slice) {
            (n, false) => Some(n),
            (_, true) => None,
        }
    }
//@ end

//@ extract src/lib.rs fn wrapping_from_limbs_slice
    pub fn wrapping_from_limbs_slice(slice: &[u64]) -> /*+*/(r:/*-*/ Self/*+*/)
        requires Self::sized(), BITS <= usize::MAX - 63
        ensures r.wf(), r.val() as int == sval(slice@) % (pow2(BITS as nat) as int)/*-*/
    {
        Self::overflowing_from_limbs_slice(slice).0
    }
//@ end

//@ extract src/lib.rs fn saturating_from_limbs_slice
    pub fn saturating_from_limbs_slice(slice: &[u64]) -> /*+*/(r:/*-*/ Self/*+*/)
        requires Self::sized(), BITS <= usize::MAX - 63
        ensures r.wf(),
            r.val() as int == (if sval(slice@) < pow2(BITS as nat) { sval(slice@) } else { pow2(BITS as nat) - 1 })/*-*/
    {
        /*+*/proof { lemma_lvr_bound(slice@, 0, slice.len() as int); if sval(slice@) < pow2(BITS as nat) { lemma_small_mod(sval(slice@) as nat, pow2(BITS as nat)); } }/*-*/
        match Self::overflowing_from_limbs_slice(slice) {
            (n, false) => n,
            (_, true) => Self::MAX(),
        }
    }
//@ end
//@ extract src/from.rs fn from_uint
    pub fn from_uint<const BITS_SRC: usize, const LIMBS_SRC: usize>(
        value: Uint<BITS_SRC, LIMBS_SRC>,
    ) -> /*+*/(r:/*-*/ Self/*+*/)
        requires Self::sized(), BITS <= usize::MAX - 63, value.wf(),
            // documented: panics if the value is too large for the target type
            value.val() < pow2(BITS as nat)
        ensures r.wf(), r.val() == value.val()/*-*/
    {
        /*+*/proof { lemma_lvr_is_lv(value.limbs@, LIMBS_SRC as nat); }/*-*/
        Self::from_limbs_slice(value.as_limbs())
    }
//@ end

//@ extract src/from.rs fn checked_from_uint
    pub fn checked_from_uint<const BITS_SRC: usize, const LIMBS_SRC: usize>(
        value: Uint<BITS_SRC, LIMBS_SRC>,
    ) -> /*+*/(r:/*-*/ Option<Self>/*+*/)
        requires Self::sized(), BITS <= usize::MAX - 63, value.wf()
        ensures r.is_some() == (value.val() < pow2(BITS as nat)),
            r.is_some() ==> r.unwrap().wf() && r.unwrap().val() == value.val()/*-*/
    {
        /*+*/proof { lemma_lvr_is_lv(value.limbs@, LIMBS_SRC as nat); }/*-*/
        Self::checked_from_limbs_slice(value.as_limbs())
    }
//@ end

//@ extract src/from.rs fn uint_try_from ctx="UintTryFrom<Uint<BITS_SRC,LIMBS_SRC>>forUint<BITS,LIMBS>" rewrite="fn uint_try_from (" => "fn uint_try_from<const BITS_SRC: usize, const LIMBS_SRC: usize>(" #1 rewrite="-> Result < Self , ToUintError < Self >>" => "-> Result<Self, ToUintError<Self> >" #1
    pub fn uint_try_from<const BITS_SRC: usize, const LIMBS_SRC: usize>(value: Uint<BITS_SRC, LIMBS_SRC>) -> /*+*/(r:/*-*/ Result<Self, ToUintError<Self> >/*+*/)
        requires Self::sized(), BITS <= usize::MAX - 63, value.wf()
        // Ok(v) exactly when v < 2^BITS, else ValueTooLarge(BITS, v mod 2^BITS)
        ensures conv_ok(r, value.val())/*-*/
    {
        /*+*/proof { lemma_lvr_is_lv(value.limbs@, LIMBS_SRC as nat); lemma_pow2_pos(BITS as nat);
            if value.val() < pow2(BITS as nat) { lemma_small_mod(value.val(), pow2(BITS as nat)); } }/*-*/
        let (n, overflow) = Self::overflowing_from_limbs_slice(value.as_limbs());
        if overflow {
            Err(ToUintError::ValueTooLarge(BITS, n))
        } else {
            Ok(n)
        }
    }
//@ end

//@ extract src/from.rs fn uint_try_to ctx="UintTryTo<Uint<BITS_DST,LIMBS_DST>>forUint<BITS,LIMBS>" rewrite="fn uint_try_to (" => "fn uint_try_to<const BITS_DST: usize, const LIMBS_DST: usize>(" #1 rewrite="FromUintError < Uint < BITS_DST , LIMBS_DST >> >" => "FromUintError<Uint<BITS_DST, LIMBS_DST> > >" #1
    pub fn uint_try_to<const BITS_DST: usize, const LIMBS_DST: usize>(
        &self,
    ) -> /*+*/(r:/*-*/ Result<Uint<BITS_DST, LIMBS_DST>, FromUintError<Uint<BITS_DST, LIMBS_DST> > >/*+*/)
        requires self.wf(), Uint::<BITS_DST, LIMBS_DST>::sized(), BITS_DST <= usize::MAX - 63
        ensures
            self.val() < pow2(BITS_DST as nat) ==> r is Ok && r->Ok_0.wf() && r->Ok_0.val() == self.val(),
            self.val() >= pow2(BITS_DST as nat) ==> r is Err && r->Err_0->Overflow_0 == BITS_DST
                && r->Err_0->Overflow_1.wf() && r->Err_0->Overflow_1.val() == self.val() % pow2(BITS_DST as nat)
                && r->Err_0->Overflow_2.wf() && r->Err_0->Overflow_2.val() == pow2(BITS_DST as nat) - 1,/*-*/
    {
        /*+*/proof { lemma_lvr_is_lv(self.limbs@, LIMBS as nat); lemma_pow2_pos(BITS_DST as nat);
            if self.val() < pow2(BITS_DST as nat) { lemma_small_mod(self.val(), pow2(BITS_DST as nat)); } }/*-*/
        let (n, overflow) = Uint::overflowing_from_limbs_slice(self.as_limbs());
        if overflow {
            Err(FromUintError::Overflow(BITS_DST, n, Uint::MAX()))
        } else {
            Ok(n)
        }
    }
//@ end
}

} // verus!
fn main() {}

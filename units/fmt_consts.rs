// unit fmt_consts: src/fmt.rs — the per-base constants behind Display/Debug/Binary/Octal/LowerHex/UpperHex: MAX = base^WIDTH with
// WIDTH >= 1 (MAX is the chunk base handed to to_base_be, WIDTH the zero-padding of every chunk but the first: any other pair prints
// wrong digits) and PREFIX is the `#` prefix of the base  (C09)
// N18: the constants are extracted as transparent spec functions with their initialisers, the relations are decided by evaluation.
// The formatting itself (write! into the buffer, Formatter::pad_integral) is core::fmt and is NOT under contract.
#![allow(non_snake_case)]
use vstd::prelude::*;
verus! {
pub open spec fn ipow(b: int, e: nat) -> int decreases e { if e == 0 { 1 } else { b * ipow(b, (e - 1) as nat) } }
pub struct Binary;
impl Binary {
//@ extract src/fmt.rs const MAX ctx="implBaseforBinary" vis=spec
        pub open spec fn MAX ( ) -> u64 { 1u64 << 63 }
//@ end
//@ extract src/fmt.rs const WIDTH ctx="implBaseforBinary" vis=spec
        pub open spec fn WIDTH ( ) -> usize { 63usize }
//@ end
//@ extract src/fmt.rs const PREFIX ctx="implBaseforBinary" vis=spec
        pub open spec fn PREFIX ( ) -> &'static str { "0b" }
//@ end
    pub proof fn lemma_consts()
        ensures Self::MAX() as int == ipow(2, Self::WIDTH() as nat), Self::WIDTH() >= 1, Self::PREFIX()@ == "0b"@
    {
        assert(Self::MAX() as int == ipow(2, Self::WIDTH() as nat) && Self::WIDTH() >= 1) by(compute);
        reveal_strlit("0b");
    }
}
pub struct Octal;
impl Octal {
//@ extract src/fmt.rs const MAX ctx="implBaseforOctal" vis=spec
        pub open spec fn MAX ( ) -> u64 { 1u64 << 63 }
//@ end
//@ extract src/fmt.rs const WIDTH ctx="implBaseforOctal" vis=spec
        pub open spec fn WIDTH ( ) -> usize { 21usize }
//@ end
//@ extract src/fmt.rs const PREFIX ctx="implBaseforOctal" vis=spec
        pub open spec fn PREFIX ( ) -> &'static str { "0o" }
//@ end
    pub proof fn lemma_consts()
        ensures Self::MAX() as int == ipow(8, Self::WIDTH() as nat), Self::WIDTH() >= 1, Self::PREFIX()@ == "0o"@
    {
        assert(Self::MAX() as int == ipow(8, Self::WIDTH() as nat) && Self::WIDTH() >= 1) by(compute);
        reveal_strlit("0o");
    }
}
pub struct Decimal;
impl Decimal {
//@ extract src/fmt.rs const MAX ctx="implBaseforDecimal" vis=spec
        pub open spec fn MAX ( ) -> u64 { 10_000_000_000_000_000_000u64 }
//@ end
//@ extract src/fmt.rs const WIDTH ctx="implBaseforDecimal" vis=spec
        pub open spec fn WIDTH ( ) -> usize { 19usize }
//@ end
//@ extract src/fmt.rs const PREFIX ctx="implBaseforDecimal" vis=spec
        pub open spec fn PREFIX ( ) -> &'static str { "" }
//@ end
    pub proof fn lemma_consts()
        ensures Self::MAX() as int == ipow(10, Self::WIDTH() as nat), Self::WIDTH() >= 1, Self::PREFIX()@ == ""@
    {
        assert(Self::MAX() as int == ipow(10, Self::WIDTH() as nat) && Self::WIDTH() >= 1) by(compute);
        reveal_strlit("");
    }
}
pub struct Hexadecimal;
impl Hexadecimal {
//@ extract src/fmt.rs const MAX ctx="implBaseforHexadecimal" vis=spec
        pub open spec fn MAX ( ) -> u64 { 1u64 << 60 }
//@ end
//@ extract src/fmt.rs const WIDTH ctx="implBaseforHexadecimal" vis=spec
        pub open spec fn WIDTH ( ) -> usize { 15usize }
//@ end
//@ extract src/fmt.rs const PREFIX ctx="implBaseforHexadecimal" vis=spec
        pub open spec fn PREFIX ( ) -> &'static str { "0x" }
//@ end
    pub proof fn lemma_consts()
        ensures Self::MAX() as int == ipow(16, Self::WIDTH() as nat), Self::WIDTH() >= 1, Self::PREFIX()@ == "0x"@
    {
        assert(Self::MAX() as int == ipow(16, Self::WIDTH() as nat) && Self::WIDTH() >= 1) by(compute);
        reveal_strlit("0x");
    }
}
} // verus!
fn main() {}

// unit forward: operator impls (impl_bin_op!) and num-traits facades forward to the inherent methods  (C20)
// GENERATED skeleton (vf/genforward.py) - the item bodies are re-extracted from the macro-expanded crate on every run.
// Every inherent method m is an external_body declaration `ensures r == spec_m(args)` with an UNINTERPRETED spec_m, so a facade
// verifies iff it calls the right method with the right arguments in the right order (N15: trait-impl methods are placed
// in an inherent impl under the mangled name Trait__method; `<Self>::m(..)` resolves to the inherent m exactly as in rustc).
#![allow(non_snake_case, non_camel_case_types)]
use vstd::prelude::*;
verus! {
//@ extract src/lib.rs struct Uint
pub struct Uint<const BITS: usize, const LIMBS: usize> { pub
    limbs: [u64; LIMBS],
}
//@ end
impl<const BITS: usize, const LIMBS: usize> Clone for Uint<BITS, LIMBS> { fn clone(&self) -> (r: Self) ensures r == *self { Uint { limbs: self.limbs } } }
impl<const BITS: usize, const LIMBS: usize> Copy for Uint<BITS, LIMBS> {}

pub uninterp spec fn spec_wrapping_add<const BITS: usize, const LIMBS: usize>(a: Uint<BITS, LIMBS>, p0: Uint<BITS, LIMBS>) -> Uint<BITS, LIMBS>;
pub uninterp spec fn spec_wrapping_sub<const BITS: usize, const LIMBS: usize>(a: Uint<BITS, LIMBS>, p0: Uint<BITS, LIMBS>) -> Uint<BITS, LIMBS>;
pub uninterp spec fn spec_wrapping_mul<const BITS: usize, const LIMBS: usize>(a: Uint<BITS, LIMBS>, p0: Uint<BITS, LIMBS>) -> Uint<BITS, LIMBS>;
pub uninterp spec fn spec_wrapping_div<const BITS: usize, const LIMBS: usize>(a: Uint<BITS, LIMBS>, p0: Uint<BITS, LIMBS>) -> Uint<BITS, LIMBS>;
pub uninterp spec fn spec_wrapping_rem<const BITS: usize, const LIMBS: usize>(a: Uint<BITS, LIMBS>, p0: Uint<BITS, LIMBS>) -> Uint<BITS, LIMBS>;
pub uninterp spec fn spec_wrapping_neg<const BITS: usize, const LIMBS: usize>(a: Uint<BITS, LIMBS>) -> Uint<BITS, LIMBS>;
pub uninterp spec fn spec_checked_add<const BITS: usize, const LIMBS: usize>(a: Uint<BITS, LIMBS>, p0: Uint<BITS, LIMBS>) -> Option<Uint<BITS, LIMBS>>;
pub uninterp spec fn spec_checked_sub<const BITS: usize, const LIMBS: usize>(a: Uint<BITS, LIMBS>, p0: Uint<BITS, LIMBS>) -> Option<Uint<BITS, LIMBS>>;
pub uninterp spec fn spec_checked_mul<const BITS: usize, const LIMBS: usize>(a: Uint<BITS, LIMBS>, p0: Uint<BITS, LIMBS>) -> Option<Uint<BITS, LIMBS>>;
pub uninterp spec fn spec_checked_div<const BITS: usize, const LIMBS: usize>(a: Uint<BITS, LIMBS>, p0: Uint<BITS, LIMBS>) -> Option<Uint<BITS, LIMBS>>;
pub uninterp spec fn spec_checked_rem<const BITS: usize, const LIMBS: usize>(a: Uint<BITS, LIMBS>, p0: Uint<BITS, LIMBS>) -> Option<Uint<BITS, LIMBS>>;
pub uninterp spec fn spec_checked_neg<const BITS: usize, const LIMBS: usize>(a: Uint<BITS, LIMBS>) -> Option<Uint<BITS, LIMBS>>;
pub uninterp spec fn spec_checked_shl<const BITS: usize, const LIMBS: usize>(a: Uint<BITS, LIMBS>, p0: usize) -> Option<Uint<BITS, LIMBS>>;
pub uninterp spec fn spec_checked_shr<const BITS: usize, const LIMBS: usize>(a: Uint<BITS, LIMBS>, p0: usize) -> Option<Uint<BITS, LIMBS>>;
pub uninterp spec fn spec_wrapping_shl<const BITS: usize, const LIMBS: usize>(a: Uint<BITS, LIMBS>, p0: usize) -> Uint<BITS, LIMBS>;
pub uninterp spec fn spec_wrapping_shr<const BITS: usize, const LIMBS: usize>(a: Uint<BITS, LIMBS>, p0: usize) -> Uint<BITS, LIMBS>;
pub uninterp spec fn spec_saturating_add<const BITS: usize, const LIMBS: usize>(a: Uint<BITS, LIMBS>, p0: Uint<BITS, LIMBS>) -> Uint<BITS, LIMBS>;
pub uninterp spec fn spec_saturating_sub<const BITS: usize, const LIMBS: usize>(a: Uint<BITS, LIMBS>, p0: Uint<BITS, LIMBS>) -> Uint<BITS, LIMBS>;
pub uninterp spec fn spec_saturating_mul<const BITS: usize, const LIMBS: usize>(a: Uint<BITS, LIMBS>, p0: Uint<BITS, LIMBS>) -> Uint<BITS, LIMBS>;
pub uninterp spec fn spec_overflowing_add<const BITS: usize, const LIMBS: usize>(a: Uint<BITS, LIMBS>, p0: Uint<BITS, LIMBS>) -> (Uint<BITS, LIMBS>, bool);
pub uninterp spec fn spec_overflowing_sub<const BITS: usize, const LIMBS: usize>(a: Uint<BITS, LIMBS>, p0: Uint<BITS, LIMBS>) -> (Uint<BITS, LIMBS>, bool);
pub uninterp spec fn spec_overflowing_mul<const BITS: usize, const LIMBS: usize>(a: Uint<BITS, LIMBS>, p0: Uint<BITS, LIMBS>) -> (Uint<BITS, LIMBS>, bool);
pub uninterp spec fn spec_inv_ring<const BITS: usize, const LIMBS: usize>(a: Uint<BITS, LIMBS>) -> Option<Uint<BITS, LIMBS>>;

impl<const BITS: usize, const LIMBS: usize> Uint<BITS, LIMBS> {
    #[verifier::external_body]
    pub fn wrapping_add(self, rhs: Self) -> (r: Self)
        ensures r == spec_wrapping_add(self, rhs)
    { unimplemented!() }
    #[verifier::external_body]
    pub fn wrapping_sub(self, rhs: Self) -> (r: Self)
        ensures r == spec_wrapping_sub(self, rhs)
    { unimplemented!() }
    #[verifier::external_body]
    pub fn wrapping_mul(self, rhs: Self) -> (r: Self)
        ensures r == spec_wrapping_mul(self, rhs)
    { unimplemented!() }
    #[verifier::external_body]
    pub fn wrapping_div(self, rhs: Self) -> (r: Self)
        ensures r == spec_wrapping_div(self, rhs)
    { unimplemented!() }
    #[verifier::external_body]
    pub fn wrapping_rem(self, rhs: Self) -> (r: Self)
        ensures r == spec_wrapping_rem(self, rhs)
    { unimplemented!() }
    #[verifier::external_body]
    pub fn wrapping_neg(self) -> (r: Self)
        ensures r == spec_wrapping_neg(self)
    { unimplemented!() }
    #[verifier::external_body]
    pub fn checked_add(self, rhs: Self) -> (r: Option<Self>)
        ensures r == spec_checked_add(self, rhs)
    { unimplemented!() }
    #[verifier::external_body]
    pub fn checked_sub(self, rhs: Self) -> (r: Option<Self>)
        ensures r == spec_checked_sub(self, rhs)
    { unimplemented!() }
    #[verifier::external_body]
    pub fn checked_mul(self, rhs: Self) -> (r: Option<Self>)
        ensures r == spec_checked_mul(self, rhs)
    { unimplemented!() }
    #[verifier::external_body]
    pub fn checked_div(self, rhs: Self) -> (r: Option<Self>)
        ensures r == spec_checked_div(self, rhs)
    { unimplemented!() }
    #[verifier::external_body]
    pub fn checked_rem(self, rhs: Self) -> (r: Option<Self>)
        ensures r == spec_checked_rem(self, rhs)
    { unimplemented!() }
    #[verifier::external_body]
    pub fn checked_neg(self) -> (r: Option<Self>)
        ensures r == spec_checked_neg(self)
    { unimplemented!() }
    #[verifier::external_body]
    pub fn checked_shl(self, rhs: usize) -> (r: Option<Self>)
        ensures r == spec_checked_shl(self, rhs)
    { unimplemented!() }
    #[verifier::external_body]
    pub fn checked_shr(self, rhs: usize) -> (r: Option<Self>)
        ensures r == spec_checked_shr(self, rhs)
    { unimplemented!() }
    #[verifier::external_body]
    pub fn wrapping_shl(self, rhs: usize) -> (r: Self)
        ensures r == spec_wrapping_shl(self, rhs)
    { unimplemented!() }
    #[verifier::external_body]
    pub fn wrapping_shr(self, rhs: usize) -> (r: Self)
        ensures r == spec_wrapping_shr(self, rhs)
    { unimplemented!() }
    #[verifier::external_body]
    pub fn saturating_add(self, rhs: Self) -> (r: Self)
        ensures r == spec_saturating_add(self, rhs)
    { unimplemented!() }
    #[verifier::external_body]
    pub fn saturating_sub(self, rhs: Self) -> (r: Self)
        ensures r == spec_saturating_sub(self, rhs)
    { unimplemented!() }
    #[verifier::external_body]
    pub fn saturating_mul(self, rhs: Self) -> (r: Self)
        ensures r == spec_saturating_mul(self, rhs)
    { unimplemented!() }
    #[verifier::external_body]
    pub fn overflowing_add(self, rhs: Self) -> (r: (Self, bool))
        ensures r == spec_overflowing_add(self, rhs)
    { unimplemented!() }
    #[verifier::external_body]
    pub fn overflowing_sub(self, rhs: Self) -> (r: (Self, bool))
        ensures r == spec_overflowing_sub(self, rhs)
    { unimplemented!() }
    #[verifier::external_body]
    pub fn overflowing_mul(self, rhs: Self) -> (r: (Self, bool))
        ensures r == spec_overflowing_mul(self, rhs)
    { unimplemented!() }
    #[verifier::external_body]
    pub fn inv_ring(self) -> (r: Option<Self>)
        ensures r == spec_inv_ring(self)
    { unimplemented!() }

//@ extract expanded fn add_assign ctx=">AddAssign<Uint<BITS,LIMBS>>forUint<BITS,LIMBS>" vis=none as=AddAssign_val__add_assign
    fn AddAssign_val__add_assign(&mut self, rhs: Uint<BITS, LIMBS>)
        /*+*/ensures *final(self) == spec_wrapping_add(*old(self), rhs)/*-*/
    {
            *self = self.wrapping_add(rhs);
        }
//@ end
//@ extract expanded fn add_assign ctx=">AddAssign<&Uint<BITS,LIMBS>>forUint<BITS,LIMBS>" vis=none as=AddAssign_ref__add_assign
    fn AddAssign_ref__add_assign(&mut self, rhs: &Uint<BITS, LIMBS>)
        /*+*/ensures *final(self) == spec_wrapping_add(*old(self), *rhs)/*-*/
    {
            *self = self.wrapping_add(*rhs);
        }
//@ end
//@ extract expanded fn add ctx=">Add<Uint<BITS,LIMBS>>forUint<BITS,LIMBS>" vis=none as=Add_val_val__add rewrite="-> Self :: Output" => "-> Uint<BITS, LIMBS>" #1
    fn Add_val_val__add(self, rhs: Uint<BITS, LIMBS>) -> /*+*/(r:/*-*/ Uint<BITS, LIMBS>/*+*/)
        ensures r == spec_wrapping_add(self, rhs) || r == spec_wrapping_add(rhs, self)/*-*/   // commutative operation: either argument order is a correct forward
    {
            self.wrapping_add(rhs)
        }
//@ end
//@ extract expanded fn add ctx=">Add<&Uint<BITS,LIMBS>>forUint<BITS,LIMBS>" vis=none as=Add_val_ref__add rewrite="-> Self :: Output" => "-> Uint<BITS, LIMBS>" #1
    fn Add_val_ref__add(self, rhs: &Uint<BITS, LIMBS>) -> /*+*/(r:/*-*/ Uint<BITS, LIMBS>/*+*/)
        ensures r == spec_wrapping_add(self, *rhs) || r == spec_wrapping_add(*rhs, self)/*-*/   // commutative operation: either argument order is a correct forward
    {
            self.wrapping_add(*rhs)
        }
//@ end
//@ extract expanded fn add ctx=">Add<Uint<BITS,LIMBS>>for&Uint<BITS,LIMBS>" vis=none as=Add_ref_val__add rewrite="-> Self :: Output" => "-> Uint<BITS, LIMBS>" #1 rewrite="( self ," => "( & self ," #1
    fn Add_ref_val__add(&self, rhs: Uint<BITS, LIMBS>) -> /*+*/(r:/*-*/ Uint<BITS, LIMBS>/*+*/)
        ensures r == spec_wrapping_add(*self, rhs) || r == spec_wrapping_add(rhs, *self)/*-*/   // commutative operation: either argument order is a correct forward
    {
            self.wrapping_add(rhs)
        }
//@ end
//@ extract expanded fn add ctx=">Add<&Uint<BITS,LIMBS>>for&Uint<BITS,LIMBS>" vis=none as=Add_ref_ref__add rewrite="-> Self :: Output" => "-> Uint<BITS, LIMBS>" #1 rewrite="( self ," => "( & self ," #1
    fn Add_ref_ref__add(&self, rhs: &Uint<BITS, LIMBS>) -> /*+*/(r:/*-*/ Uint<BITS, LIMBS>/*+*/)
        ensures r == spec_wrapping_add(*self, *rhs) || r == spec_wrapping_add(*rhs, *self)/*-*/   // commutative operation: either argument order is a correct forward
    {
            self.wrapping_add(*rhs)
        }
//@ end
//@ extract expanded fn sub_assign ctx=">SubAssign<Uint<BITS,LIMBS>>forUint<BITS,LIMBS>" vis=none as=SubAssign_val__sub_assign
    fn SubAssign_val__sub_assign(&mut self, rhs: Uint<BITS, LIMBS>)
        /*+*/ensures *final(self) == spec_wrapping_sub(*old(self), rhs)/*-*/
    {
            *self = self.wrapping_sub(rhs);
        }
//@ end
//@ extract expanded fn sub_assign ctx=">SubAssign<&Uint<BITS,LIMBS>>forUint<BITS,LIMBS>" vis=none as=SubAssign_ref__sub_assign
    fn SubAssign_ref__sub_assign(&mut self, rhs: &Uint<BITS, LIMBS>)
        /*+*/ensures *final(self) == spec_wrapping_sub(*old(self), *rhs)/*-*/
    {
            *self = self.wrapping_sub(*rhs);
        }
//@ end
//@ extract expanded fn sub ctx=">Sub<Uint<BITS,LIMBS>>forUint<BITS,LIMBS>" vis=none as=Sub_val_val__sub rewrite="-> Self :: Output" => "-> Uint<BITS, LIMBS>" #1
    fn Sub_val_val__sub(self, rhs: Uint<BITS, LIMBS>) -> /*+*/(r:/*-*/ Uint<BITS, LIMBS>/*+*/)
        ensures r == spec_wrapping_sub(self, rhs)/*-*/
    {
            self.wrapping_sub(rhs)
        }
//@ end
//@ extract expanded fn sub ctx=">Sub<&Uint<BITS,LIMBS>>forUint<BITS,LIMBS>" vis=none as=Sub_val_ref__sub rewrite="-> Self :: Output" => "-> Uint<BITS, LIMBS>" #1
    fn Sub_val_ref__sub(self, rhs: &Uint<BITS, LIMBS>) -> /*+*/(r:/*-*/ Uint<BITS, LIMBS>/*+*/)
        ensures r == spec_wrapping_sub(self, *rhs)/*-*/
    {
            self.wrapping_sub(*rhs)
        }
//@ end
//@ extract expanded fn sub ctx=">Sub<Uint<BITS,LIMBS>>for&Uint<BITS,LIMBS>" vis=none as=Sub_ref_val__sub rewrite="-> Self :: Output" => "-> Uint<BITS, LIMBS>" #1 rewrite="( self ," => "( & self ," #1
    fn Sub_ref_val__sub(&self, rhs: Uint<BITS, LIMBS>) -> /*+*/(r:/*-*/ Uint<BITS, LIMBS>/*+*/)
        ensures r == spec_wrapping_sub(*self, rhs)/*-*/
    {
            self.wrapping_sub(rhs)
        }
//@ end
//@ extract expanded fn sub ctx=">Sub<&Uint<BITS,LIMBS>>for&Uint<BITS,LIMBS>" vis=none as=Sub_ref_ref__sub rewrite="-> Self :: Output" => "-> Uint<BITS, LIMBS>" #1 rewrite="( self ," => "( & self ," #1
    fn Sub_ref_ref__sub(&self, rhs: &Uint<BITS, LIMBS>) -> /*+*/(r:/*-*/ Uint<BITS, LIMBS>/*+*/)
        ensures r == spec_wrapping_sub(*self, *rhs)/*-*/
    {
            self.wrapping_sub(*rhs)
        }
//@ end
//@ extract expanded fn mul_assign ctx=">MulAssign<Uint<BITS,LIMBS>>forUint<BITS,LIMBS>" vis=none as=MulAssign_val__mul_assign
    fn MulAssign_val__mul_assign(&mut self, rhs: Uint<BITS, LIMBS>)
        /*+*/ensures *final(self) == spec_wrapping_mul(*old(self), rhs)/*-*/
    {
            *self = self.wrapping_mul(rhs);
        }
//@ end
//@ extract expanded fn mul_assign ctx=">MulAssign<&Uint<BITS,LIMBS>>forUint<BITS,LIMBS>" vis=none as=MulAssign_ref__mul_assign
    fn MulAssign_ref__mul_assign(&mut self, rhs: &Uint<BITS, LIMBS>)
        /*+*/ensures *final(self) == spec_wrapping_mul(*old(self), *rhs)/*-*/
    {
            *self = self.wrapping_mul(*rhs);
        }
//@ end
//@ extract expanded fn mul ctx=">Mul<Uint<BITS,LIMBS>>forUint<BITS,LIMBS>" vis=none as=Mul_val_val__mul rewrite="-> Self :: Output" => "-> Uint<BITS, LIMBS>" #1
    fn Mul_val_val__mul(self, rhs: Uint<BITS, LIMBS>) -> /*+*/(r:/*-*/ Uint<BITS, LIMBS>/*+*/)
        ensures r == spec_wrapping_mul(self, rhs) || r == spec_wrapping_mul(rhs, self)/*-*/   // commutative operation: either argument order is a correct forward
    {
            self.wrapping_mul(rhs)
        }
//@ end
//@ extract expanded fn mul ctx=">Mul<&Uint<BITS,LIMBS>>forUint<BITS,LIMBS>" vis=none as=Mul_val_ref__mul rewrite="-> Self :: Output" => "-> Uint<BITS, LIMBS>" #1
    fn Mul_val_ref__mul(self, rhs: &Uint<BITS, LIMBS>) -> /*+*/(r:/*-*/ Uint<BITS, LIMBS>/*+*/)
        ensures r == spec_wrapping_mul(self, *rhs) || r == spec_wrapping_mul(*rhs, self)/*-*/   // commutative operation: either argument order is a correct forward
    {
            self.wrapping_mul(*rhs)
        }
//@ end
//@ extract expanded fn mul ctx=">Mul<Uint<BITS,LIMBS>>for&Uint<BITS,LIMBS>" vis=none as=Mul_ref_val__mul rewrite="-> Self :: Output" => "-> Uint<BITS, LIMBS>" #1 rewrite="( self ," => "( & self ," #1
    fn Mul_ref_val__mul(&self, rhs: Uint<BITS, LIMBS>) -> /*+*/(r:/*-*/ Uint<BITS, LIMBS>/*+*/)
        ensures r == spec_wrapping_mul(*self, rhs) || r == spec_wrapping_mul(rhs, *self)/*-*/   // commutative operation: either argument order is a correct forward
    {
            self.wrapping_mul(rhs)
        }
//@ end
//@ extract expanded fn mul ctx=">Mul<&Uint<BITS,LIMBS>>for&Uint<BITS,LIMBS>" vis=none as=Mul_ref_ref__mul rewrite="-> Self :: Output" => "-> Uint<BITS, LIMBS>" #1 rewrite="( self ," => "( & self ," #1
    fn Mul_ref_ref__mul(&self, rhs: &Uint<BITS, LIMBS>) -> /*+*/(r:/*-*/ Uint<BITS, LIMBS>/*+*/)
        ensures r == spec_wrapping_mul(*self, *rhs) || r == spec_wrapping_mul(*rhs, *self)/*-*/   // commutative operation: either argument order is a correct forward
    {
            self.wrapping_mul(*rhs)
        }
//@ end
//@ extract expanded fn div_assign ctx=">DivAssign<Uint<BITS,LIMBS>>forUint<BITS,LIMBS>" vis=none as=DivAssign_val__div_assign
    fn DivAssign_val__div_assign(&mut self, rhs: Uint<BITS, LIMBS>)
        /*+*/ensures *final(self) == spec_wrapping_div(*old(self), rhs)/*-*/
    {
            *self = self.wrapping_div(rhs);
        }
//@ end
//@ extract expanded fn div_assign ctx=">DivAssign<&Uint<BITS,LIMBS>>forUint<BITS,LIMBS>" vis=none as=DivAssign_ref__div_assign
    fn DivAssign_ref__div_assign(&mut self, rhs: &Uint<BITS, LIMBS>)
        /*+*/ensures *final(self) == spec_wrapping_div(*old(self), *rhs)/*-*/
    {
            *self = self.wrapping_div(*rhs);
        }
//@ end
//@ extract expanded fn div ctx=">Div<Uint<BITS,LIMBS>>forUint<BITS,LIMBS>" vis=none as=Div_val_val__div rewrite="-> Self :: Output" => "-> Uint<BITS, LIMBS>" #1
    fn Div_val_val__div(self, rhs: Uint<BITS, LIMBS>) -> /*+*/(r:/*-*/ Uint<BITS, LIMBS>/*+*/)
        ensures r == spec_wrapping_div(self, rhs)/*-*/
    {
            self.wrapping_div(rhs)
        }
//@ end
//@ extract expanded fn div ctx=">Div<&Uint<BITS,LIMBS>>forUint<BITS,LIMBS>" vis=none as=Div_val_ref__div rewrite="-> Self :: Output" => "-> Uint<BITS, LIMBS>" #1
    fn Div_val_ref__div(self, rhs: &Uint<BITS, LIMBS>) -> /*+*/(r:/*-*/ Uint<BITS, LIMBS>/*+*/)
        ensures r == spec_wrapping_div(self, *rhs)/*-*/
    {
            self.wrapping_div(*rhs)
        }
//@ end
//@ extract expanded fn div ctx=">Div<Uint<BITS,LIMBS>>for&Uint<BITS,LIMBS>" vis=none as=Div_ref_val__div rewrite="-> Self :: Output" => "-> Uint<BITS, LIMBS>" #1 rewrite="( self ," => "( & self ," #1
    fn Div_ref_val__div(&self, rhs: Uint<BITS, LIMBS>) -> /*+*/(r:/*-*/ Uint<BITS, LIMBS>/*+*/)
        ensures r == spec_wrapping_div(*self, rhs)/*-*/
    {
            self.wrapping_div(rhs)
        }
//@ end
//@ extract expanded fn div ctx=">Div<&Uint<BITS,LIMBS>>for&Uint<BITS,LIMBS>" vis=none as=Div_ref_ref__div rewrite="-> Self :: Output" => "-> Uint<BITS, LIMBS>" #1 rewrite="( self ," => "( & self ," #1
    fn Div_ref_ref__div(&self, rhs: &Uint<BITS, LIMBS>) -> /*+*/(r:/*-*/ Uint<BITS, LIMBS>/*+*/)
        ensures r == spec_wrapping_div(*self, *rhs)/*-*/
    {
            self.wrapping_div(*rhs)
        }
//@ end
//@ extract expanded fn rem_assign ctx=">RemAssign<Uint<BITS,LIMBS>>forUint<BITS,LIMBS>" vis=none as=RemAssign_val__rem_assign
    fn RemAssign_val__rem_assign(&mut self, rhs: Uint<BITS, LIMBS>)
        /*+*/ensures *final(self) == spec_wrapping_rem(*old(self), rhs)/*-*/
    {
            *self = self.wrapping_rem(rhs);
        }
//@ end
//@ extract expanded fn rem_assign ctx=">RemAssign<&Uint<BITS,LIMBS>>forUint<BITS,LIMBS>" vis=none as=RemAssign_ref__rem_assign
    fn RemAssign_ref__rem_assign(&mut self, rhs: &Uint<BITS, LIMBS>)
        /*+*/ensures *final(self) == spec_wrapping_rem(*old(self), *rhs)/*-*/
    {
            *self = self.wrapping_rem(*rhs);
        }
//@ end
//@ extract expanded fn rem ctx=">Rem<Uint<BITS,LIMBS>>forUint<BITS,LIMBS>" vis=none as=Rem_val_val__rem rewrite="-> Self :: Output" => "-> Uint<BITS, LIMBS>" #1
    fn Rem_val_val__rem(self, rhs: Uint<BITS, LIMBS>) -> /*+*/(r:/*-*/ Uint<BITS, LIMBS>/*+*/)
        ensures r == spec_wrapping_rem(self, rhs)/*-*/
    {
            self.wrapping_rem(rhs)
        }
//@ end
//@ extract expanded fn rem ctx=">Rem<&Uint<BITS,LIMBS>>forUint<BITS,LIMBS>" vis=none as=Rem_val_ref__rem rewrite="-> Self :: Output" => "-> Uint<BITS, LIMBS>" #1
    fn Rem_val_ref__rem(self, rhs: &Uint<BITS, LIMBS>) -> /*+*/(r:/*-*/ Uint<BITS, LIMBS>/*+*/)
        ensures r == spec_wrapping_rem(self, *rhs)/*-*/
    {
            self.wrapping_rem(*rhs)
        }
//@ end
//@ extract expanded fn rem ctx=">Rem<Uint<BITS,LIMBS>>for&Uint<BITS,LIMBS>" vis=none as=Rem_ref_val__rem rewrite="-> Self :: Output" => "-> Uint<BITS, LIMBS>" #1 rewrite="( self ," => "( & self ," #1
    fn Rem_ref_val__rem(&self, rhs: Uint<BITS, LIMBS>) -> /*+*/(r:/*-*/ Uint<BITS, LIMBS>/*+*/)
        ensures r == spec_wrapping_rem(*self, rhs)/*-*/
    {
            self.wrapping_rem(rhs)
        }
//@ end
//@ extract expanded fn rem ctx=">Rem<&Uint<BITS,LIMBS>>for&Uint<BITS,LIMBS>" vis=none as=Rem_ref_ref__rem rewrite="-> Self :: Output" => "-> Uint<BITS, LIMBS>" #1 rewrite="( self ," => "( & self ," #1
    fn Rem_ref_ref__rem(&self, rhs: &Uint<BITS, LIMBS>) -> /*+*/(r:/*-*/ Uint<BITS, LIMBS>/*+*/)
        ensures r == spec_wrapping_rem(*self, *rhs)/*-*/
    {
            self.wrapping_rem(*rhs)
        }
//@ end
//@ extract expanded fn checked_add ctx="CheckedAddforUint" vis=none as=CheckedAdd__checked_add
    fn CheckedAdd__checked_add(&self, other: &Self) -> /*+*/(r:/*-*/ Option<Self>/*+*/)
        ensures r == spec_checked_add(*self, *other) || r == spec_checked_add(*other, *self)/*-*/   // commutative operation: either argument order is a correct forward
    {
                <Self>::checked_add(*self, *other)
            }
//@ end
//@ extract expanded fn checked_sub ctx="CheckedSubforUint" vis=none as=CheckedSub__checked_sub
    fn CheckedSub__checked_sub(&self, other: &Self) -> /*+*/(r:/*-*/ Option<Self>/*+*/)
        ensures r == spec_checked_sub(*self, *other)/*-*/
    {
                <Self>::checked_sub(*self, *other)
            }
//@ end
//@ extract expanded fn checked_mul ctx="CheckedMulforUint" vis=none as=CheckedMul__checked_mul
    fn CheckedMul__checked_mul(&self, other: &Self) -> /*+*/(r:/*-*/ Option<Self>/*+*/)
        ensures r == spec_checked_mul(*self, *other) || r == spec_checked_mul(*other, *self)/*-*/   // commutative operation: either argument order is a correct forward
    {
                <Self>::checked_mul(*self, *other)
            }
//@ end
//@ extract expanded fn checked_div ctx="CheckedDivforUint" vis=none as=CheckedDiv__checked_div
    fn CheckedDiv__checked_div(&self, other: &Self) -> /*+*/(r:/*-*/ Option<Self>/*+*/)
        ensures r == spec_checked_div(*self, *other)/*-*/
    {
                <Self>::checked_div(*self, *other)
            }
//@ end
//@ extract expanded fn checked_rem ctx="CheckedRemforUint" vis=none as=CheckedRem__checked_rem
    fn CheckedRem__checked_rem(&self, other: &Self) -> /*+*/(r:/*-*/ Option<Self>/*+*/)
        ensures r == spec_checked_rem(*self, *other)/*-*/
    {
                <Self>::checked_rem(*self, *other)
            }
//@ end
//@ extract expanded fn checked_neg ctx="CheckedNegforUint" vis=none as=CheckedNeg__checked_neg
    fn CheckedNeg__checked_neg(&self) -> /*+*/(r:/*-*/ Option<Self>/*+*/)
        ensures r == spec_checked_neg(*self)/*-*/
    {
                <Self>::checked_neg(*self)
            }
//@ end
//@ extract expanded fn checked_shl ctx="CheckedShlforUint" vis=none as=CheckedShl__checked_shl
    fn CheckedShl__checked_shl(&self, other: u32) -> /*+*/(r:/*-*/ Option<Self>/*+*/)
        ensures r == spec_checked_shl(*self, other as usize)/*-*/
    {
                <Self>::checked_shl(*self, other as usize)
            }
//@ end
//@ extract expanded fn checked_shr ctx="CheckedShrforUint" vis=none as=CheckedShr__checked_shr
    fn CheckedShr__checked_shr(&self, other: u32) -> /*+*/(r:/*-*/ Option<Self>/*+*/)
        ensures r == spec_checked_shr(*self, other as usize)/*-*/
    {
                <Self>::checked_shr(*self, other as usize)
            }
//@ end
//@ extract expanded fn checked_div_euclid ctx="CheckedEuclidforUint" vis=none as=CheckedEuclid__checked_div_euclid
    fn CheckedEuclid__checked_div_euclid(&self, v: &Self) -> /*+*/(r:/*-*/ Option<Self>/*+*/)
        ensures r == spec_checked_div(*self, *v)/*-*/
    {
                <Self>::checked_div(*self, *v)
            }
//@ end
//@ extract expanded fn checked_rem_euclid ctx="CheckedEuclidforUint" vis=none as=CheckedEuclid__checked_rem_euclid
    fn CheckedEuclid__checked_rem_euclid(&self, v: &Self) -> /*+*/(r:/*-*/ Option<Self>/*+*/)
        ensures r == spec_checked_rem(*self, *v)/*-*/
    {
                <Self>::checked_rem(*self, *v)
            }
//@ end
//@ extract expanded fn div_euclid ctx="EuclidforUint" vis=none as=Euclid__div_euclid
    fn Euclid__div_euclid(&self, v: &Self) -> /*+*/(r:/*-*/ Self/*+*/)
        ensures r == spec_wrapping_div(*self, *v)/*-*/
    {
                <Self>::wrapping_div(*self, *v)
            }
//@ end
//@ extract expanded fn rem_euclid ctx="EuclidforUint" vis=none as=Euclid__rem_euclid
    fn Euclid__rem_euclid(&self, v: &Self) -> /*+*/(r:/*-*/ Self/*+*/)
        ensures r == spec_wrapping_rem(*self, *v)/*-*/
    {
                <Self>::wrapping_rem(*self, *v)
            }
//@ end
//@ extract expanded fn saturating_add ctx="SaturatingforUint" vis=none as=Saturating__saturating_add
    fn Saturating__saturating_add(self, v: Self) -> /*+*/(r:/*-*/ Self/*+*/)
        ensures r == spec_saturating_add(self, v) || r == spec_saturating_add(v, self)/*-*/   // commutative operation: either argument order is a correct forward
    {
                <Self>::saturating_add(self, v)
            }
//@ end
//@ extract expanded fn saturating_sub ctx="SaturatingforUint" vis=none as=Saturating__saturating_sub
    fn Saturating__saturating_sub(self, v: Self) -> /*+*/(r:/*-*/ Self/*+*/)
        ensures r == spec_saturating_sub(self, v)/*-*/
    {
                <Self>::saturating_sub(self, v)
            }
//@ end
//@ extract expanded fn saturating_add ctx="SaturatingAddforUint" vis=none as=SaturatingAdd__saturating_add
    fn SaturatingAdd__saturating_add(&self, v: &Self) -> /*+*/(r:/*-*/ Self/*+*/)
        ensures r == spec_saturating_add(*self, *v) || r == spec_saturating_add(*v, *self)/*-*/   // commutative operation: either argument order is a correct forward
    {
                <Self>::saturating_add(*self, *v)
            }
//@ end
//@ extract expanded fn saturating_sub ctx="SaturatingSubforUint" vis=none as=SaturatingSub__saturating_sub
    fn SaturatingSub__saturating_sub(&self, v: &Self) -> /*+*/(r:/*-*/ Self/*+*/)
        ensures r == spec_saturating_sub(*self, *v)/*-*/
    {
                <Self>::saturating_sub(*self, *v)
            }
//@ end
//@ extract expanded fn saturating_mul ctx="SaturatingMulforUint" vis=none as=SaturatingMul__saturating_mul
    fn SaturatingMul__saturating_mul(&self, v: &Self) -> /*+*/(r:/*-*/ Self/*+*/)
        ensures r == spec_saturating_mul(*self, *v) || r == spec_saturating_mul(*v, *self)/*-*/   // commutative operation: either argument order is a correct forward
    {
                <Self>::saturating_mul(*self, *v)
            }
//@ end
//@ extract expanded fn wrapping_add ctx="WrappingAddforUint" vis=none as=WrappingAdd__wrapping_add
    fn WrappingAdd__wrapping_add(&self, v: &Self) -> /*+*/(r:/*-*/ Self/*+*/)
        ensures r == spec_wrapping_add(*self, *v) || r == spec_wrapping_add(*v, *self)/*-*/   // commutative operation: either argument order is a correct forward
    {
                <Self>::wrapping_add(*self, *v)
            }
//@ end
//@ extract expanded fn wrapping_sub ctx="WrappingSubforUint" vis=none as=WrappingSub__wrapping_sub
    fn WrappingSub__wrapping_sub(&self, v: &Self) -> /*+*/(r:/*-*/ Self/*+*/)
        ensures r == spec_wrapping_sub(*self, *v)/*-*/
    {
                <Self>::wrapping_sub(*self, *v)
            }
//@ end
//@ extract expanded fn wrapping_mul ctx="WrappingMulforUint" vis=none as=WrappingMul__wrapping_mul
    fn WrappingMul__wrapping_mul(&self, v: &Self) -> /*+*/(r:/*-*/ Self/*+*/)
        ensures r == spec_wrapping_mul(*self, *v) || r == spec_wrapping_mul(*v, *self)/*-*/   // commutative operation: either argument order is a correct forward
    {
                <Self>::wrapping_mul(*self, *v)
            }
//@ end
//@ extract expanded fn wrapping_neg ctx="WrappingNegforUint" vis=none as=WrappingNeg__wrapping_neg
    fn WrappingNeg__wrapping_neg(&self) -> /*+*/(r:/*-*/ Self/*+*/)
        ensures r == spec_wrapping_neg(*self)/*-*/
    { <Self>::wrapping_neg(*self) }
//@ end
//@ extract expanded fn wrapping_shl ctx="WrappingShlforUint" vis=none as=WrappingShl__wrapping_shl
    fn WrappingShl__wrapping_shl(&self, rhs: u32) -> /*+*/(r:/*-*/ Self/*+*/)
        ensures r == spec_wrapping_shl(*self, rhs as usize)/*-*/
    {
                <Self>::wrapping_shl(*self, rhs as usize)
            }
//@ end
//@ extract expanded fn wrapping_shr ctx="WrappingShrforUint" vis=none as=WrappingShr__wrapping_shr
    fn WrappingShr__wrapping_shr(&self, rhs: u32) -> /*+*/(r:/*-*/ Self/*+*/)
        ensures r == spec_wrapping_shr(*self, rhs as usize)/*-*/
    {
                <Self>::wrapping_shr(*self, rhs as usize)
            }
//@ end
//@ extract expanded fn overflowing_add ctx="OverflowingAddforUint" vis=none as=OverflowingAdd__overflowing_add
    fn OverflowingAdd__overflowing_add(&self, v: &Self) -> /*+*/(r:/*-*/ (Self, bool)/*+*/)
        ensures r == spec_overflowing_add(*self, *v) || r == spec_overflowing_add(*v, *self)/*-*/   // commutative operation: either argument order is a correct forward
    {
                <Self>::overflowing_add(*self, *v)
            }
//@ end
//@ extract expanded fn overflowing_sub ctx="OverflowingSubforUint" vis=none as=OverflowingSub__overflowing_sub
    fn OverflowingSub__overflowing_sub(&self, v: &Self) -> /*+*/(r:/*-*/ (Self, bool)/*+*/)
        ensures r == spec_overflowing_sub(*self, *v)/*-*/
    {
                <Self>::overflowing_sub(*self, *v)
            }
//@ end
//@ extract expanded fn overflowing_mul ctx="OverflowingMulforUint" vis=none as=OverflowingMul__overflowing_mul
    fn OverflowingMul__overflowing_mul(&self, v: &Self) -> /*+*/(r:/*-*/ (Self, bool)/*+*/)
        ensures r == spec_overflowing_mul(*self, *v) || r == spec_overflowing_mul(*v, *self)/*-*/   // commutative operation: either argument order is a correct forward
    {
                <Self>::overflowing_mul(*self, *v)
            }
//@ end
}

} // verus!
fn main() {}

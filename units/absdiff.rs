// unit absdiff: src/add.rs abs_diff  (C01)
#![allow(non_snake_case)]
use vstd::prelude::*;
use vstd::arithmetic::power::*;
use vstd::arithmetic::power2::*;
use vstd::arithmetic::mul::*;
use vstd::arithmetic::div_mod::*;
use vstd::bits::*;
use vstd::std_specs::cmp::*;
use vstd::std_specs::ops::*;
verus! {
//@ include lib/base.rs

//@ extract src/lib.rs struct Uint
pub struct Uint<const BITS: usize, const LIMBS: usize> { pub
    limbs: [u64; LIMBS],
}
//@ end

//@ include lib/uint_spec.rs
//@ include lib/uint_ops.rs

impl<const BITS: usize, const LIMBS: usize> Uint<BITS, LIMBS> {
//@ import add wrapping_sub

//@ extract src/add.rs fn abs_diff
    pub fn abs_diff(self, other: Self) -> /*+*/(r:/*-*/ Self/*+*/)
        requires self.wf(), other.wf()
        // |self - other|, which always fits
        ensures r.wf(), r.val() as int == (if self.val() < other.val() { other.val() - self.val() } else { self.val() - other.val() })/*-*/
    {
        /*+*/proof {
            self.lemma_wf_lt(); other.lemma_wf_lt();
            let d = if self.val() < other.val() { other.val() - self.val() } else { self.val() - other.val() };
            lemma_small_mod(d as nat, pow2(BITS as nat));
        }/*-*/
        if self < other {
            other.wrapping_sub(self)
        } else {
            self.wrapping_sub(other)
        }
    }
//@ end
}

} // verus!
fn main() {}

// unit add: src/add.rs + carrying_add/borrowing_sub of src/algorithms/mod.rs   (C01)
#![allow(non_snake_case)]
use vstd::prelude::*;
use vstd::arithmetic::power2::*;
use vstd::arithmetic::mul::*;
use vstd::arithmetic::div_mod::*;
use vstd::bits::*;
verus! {
//@ include lib/base.rs

//@ extract src/lib.rs struct Uint
pub struct Uint<const BITS: usize, const LIMBS: usize> { pub
    limbs: [u64; LIMBS],
}
//@ end

//@ include lib/uint_spec.rs

//@ extract src/algorithms/mod.rs fn carrying_add bools=carry_1,carry_2
pub fn carrying_add(lhs: u64, rhs: u64, carry: bool) -> /*+*/(r:/*-*/ (u64, bool)/*+*/)
    ensures r.0 as nat + b2n(r.1) * B == lhs as nat + rhs as nat + b2n(carry)/*-*/
{
    let (result, carry_1) = lhs.overflowing_add(rhs);
    let (result, carry_2) = result.overflowing_add(carry as u64);
    (result, carry_1 || carry_2)
}
//@ end

//@ extract src/algorithms/mod.rs fn borrowing_sub bools=borrow_1,borrow_2
pub fn borrowing_sub(lhs: u64, rhs: u64, borrow: bool) -> /*+*/(r:/*-*/ (u64, bool)/*+*/)
    ensures r.0 as int - b2n(r.1) * B == lhs as int - rhs as int - b2n(borrow)/*-*/
{
    let (result, borrow_1) = lhs.overflowing_sub(rhs);
    let (result, borrow_2) = result.overflowing_sub(borrow as u64);
    (result, borrow_1 || borrow_2)
}
//@ end

impl<const BITS: usize, const LIMBS: usize> Uint<BITS, LIMBS> {
//@ import core MASK
//@ import core ZERO
//@ import core MAX
//@ import core masked

    // the sum/difference of two canonical values, after the ripple loop and the final mask
    pub proof fn lemma_add_result(a: Self, b: Self, this: Self, carry: bool)
        requires a.wf(), b.wf(), BITS > 0,
            this.val() + b2n(carry) * pow2(64 * LIMBS as nat) == a.val() + b.val(),
        ensures
            this.val() % pow2(BITS as nat) == (a.val() + b.val()) % pow2(BITS as nat),
            (carry || this.limbs[LIMBS - 1] > spec_mask(BITS)) == (a.val() + b.val() >= pow2(BITS as nat)),
    {
        let sum = a.val() + b.val();
        let full = pow2(64 * LIMBS as nat);
        let m = pow2(BITS as nat);
        lemma_lv_bound(this.limbs@, LIMBS as nat);
        this.lemma_wf_iff_lt();
        a.lemma_wf_iff_lt();
        b.lemma_wf_iff_lt();
        lemma_pow2_pos(BITS as nat);
        let d = (64 * LIMBS - BITS) as nat;
        lemma_pow2_adds(BITS as nat, d);
        lemma_pow2_pos(d);
        assert(full == m * pow2(d));
        assert(full >= m) by { lemma_mul_increases(pow2(d) as int, m as int); lemma_mul_is_commutative(m as int, pow2(d) as int); }
        if carry {
            assert(sum >= full);
            lemma_mod_multiples_vanish(pow2(d) as int, this.val() as int, m as int);
            lemma_mul_is_commutative(m as int, pow2(d) as int);
            assert(sum == this.val() + pow2(d) * m);
        } else {
            assert(sum == this.val());
        }
    }

    pub proof fn lemma_sub_result(a: Self, b: Self, this: Self, borrow: bool)
        requires a.wf(), b.wf(), BITS > 0,
            this.val() - b2n(borrow) * pow2(64 * LIMBS as nat) == a.val() - b.val(),
        ensures
            (this.val() % pow2(BITS as nat)) as int == (a.val() - b.val()) % (pow2(BITS as nat) as int),
            (borrow || this.limbs[LIMBS - 1] > spec_mask(BITS)) == (a.val() < b.val()),
    {
        let diff = a.val() - b.val();
        let full = pow2(64 * LIMBS as nat);
        let m = pow2(BITS as nat);
        lemma_lv_bound(this.limbs@, LIMBS as nat);
        this.lemma_wf_iff_lt();
        a.lemma_wf_iff_lt();
        b.lemma_wf_iff_lt();
        lemma_pow2_pos(BITS as nat);
        let d = (64 * LIMBS - BITS) as nat;
        lemma_pow2_adds(BITS as nat, d);
        lemma_pow2_pos(d);
        assert(full == m * pow2(d));
        if borrow {
            assert(diff < 0);
            // this.val == diff + pow2(d) * m
            lemma_mul_is_commutative(m as int, pow2(d) as int);
            lemma_mod_multiples_vanish(pow2(d) as int, diff, m as int);
            assert(this.val() as int == pow2(d) * m + diff);
        } else {
            assert(diff == this.val());
        }
    }

//@ extract src/add.rs fn overflowing_add bools=carry
    pub fn overflowing_add(self, rhs: Self) -> /*+*/(r:/*-*/ (Self, bool)/*+*/)
        requires self.wf(), rhs.wf()
        ensures r.0.wf(),
            r.0.val() == (self.val() + rhs.val()) % pow2(BITS as nat),
            r.1 == (self.val() + rhs.val() >= pow2(BITS as nat)),/*-*/
    { let mut this = self ;
        if BITS == 0 {
            /*+*/proof { lemma2_to64(); assert(self.val() == 0 && rhs.val() == 0); }/*-*/
            return (Self::ZERO(), false);
        }
        let mut carry = false;
        let mut i = 0;
        while i < LIMBS
            /*+*/invariant
                0 <= i <= LIMBS,
                lv(this.limbs@, i as nat) + b2n(carry) * pow2(64 * i as nat) == lv(self.limbs@, i as nat) + lv(rhs.limbs@, i as nat),
                forall|j: int| i <= j < LIMBS ==> this.limbs[j] == self.limbs[j],
            decreases LIMBS - i/*-*/
        {
            /*+*/let ghost prev = this.limbs@;
            let ghost c0 = carry;/*-*/
            let ( t0_0 , t0_1 ) = carrying_add(this.limbs[i], rhs.limbs[i], carry);this.limbs[i] = t0_0 ; carry = t0_1 ;
            /*+*/proof {
                lemma_lv_ext(prev, this.limbs@, i as nat);
                lemma_pow2_adds(64 * i as nat, 64);
                lemma_pow2_64();
                let w = pow2(64 * i as nat);
                let a = self.limbs[i as int] as nat;
                let b = rhs.limbs[i as int] as nat;
                assert(pow2(64 * (i + 1) as nat) == w * B);
                assert(t0_0 as nat + b2n(t0_1) * B == a + b + b2n(c0));
                assert((t0_0 as nat) * w + b2n(t0_1) * (w * B) == a * w + b * w + b2n(c0) * w) by(nonlinear_arith)
                    requires t0_0 as nat + b2n(t0_1) * B == a + b + b2n(c0);
            }/*-*/
            i += 1;
        }
        let overflow = carry || (this.limbs[LIMBS - 1] > Self::MASK());
        /*+*/proof { Self::lemma_add_result(self, rhs, this, carry); }/*-*/
        (this.masked(), overflow)
    }
//@ end

//@ extract src/add.rs fn overflowing_sub bools=borrow
    pub fn overflowing_sub(self, rhs: Self) -> /*+*/(r:/*-*/ (Self, bool)/*+*/)
        requires self.wf(), rhs.wf()
        ensures r.0.wf(),
            r.0.val() as int == (self.val() - rhs.val()) % (pow2(BITS as nat) as int),
            r.1 == (self.val() < rhs.val()),/*-*/
    { let mut this = self ;
        if BITS == 0 {
            /*+*/proof { lemma2_to64(); assert(self.val() == 0 && rhs.val() == 0); }/*-*/
            return (Self::ZERO(), false);
        }
        let mut borrow = false;
        let mut i = 0;
        while i < LIMBS
            /*+*/invariant
                0 <= i <= LIMBS,
                lv(this.limbs@, i as nat) - b2n(borrow) * pow2(64 * i as nat) == lv(self.limbs@, i as nat) - lv(rhs.limbs@, i as nat),
                forall|j: int| i <= j < LIMBS ==> this.limbs[j] == self.limbs[j],
            decreases LIMBS - i/*-*/
        {
            /*+*/let ghost prev = this.limbs@;
            let ghost c0 = borrow;/*-*/
            let ( t0_0 , t0_1 ) = borrowing_sub(this.limbs[i], rhs.limbs[i], borrow);this.limbs[i] = t0_0 ; borrow = t0_1 ;
            /*+*/proof {
                lemma_lv_ext(prev, this.limbs@, i as nat);
                lemma_pow2_adds(64 * i as nat, 64);
                lemma_pow2_64();
                let w = pow2(64 * i as nat) as int;
                let a = self.limbs[i as int] as int;
                let b = rhs.limbs[i as int] as int;
                assert(pow2(64 * (i + 1) as nat) == w * B);
                assert(t0_0 as int - b2n(t0_1) * B == a - b - b2n(c0));
                assert((t0_0 as int) * w - b2n(t0_1) * (w * B) == a * w - b * w - b2n(c0) * w) by(nonlinear_arith)
                    requires t0_0 as int - b2n(t0_1) * B == a - b - b2n(c0);
            }/*-*/
            i += 1;
        }
        let overflow = borrow || (this.limbs[LIMBS - 1] > Self::MASK());
        /*+*/proof { Self::lemma_sub_result(self, rhs, this, borrow); }/*-*/
        (this.masked(), overflow)
    }
//@ end

//@ extract src/add.rs fn overflowing_neg
    pub fn overflowing_neg(self) -> /*+*/(r:/*-*/ (Self, bool)/*+*/)
        requires self.wf(), BITS <= usize::MAX - 63
        ensures r.0.wf(),
            r.0.val() as int == (0 - self.val()) % (pow2(BITS as nat) as int),
            r.1 == (self.val() != 0),/*-*/
    {
        Self::ZERO().overflowing_sub(self)
    }
//@ end

//@ extract src/add.rs fn checked_add
    pub fn checked_add(self, rhs: Self) -> /*+*/(r:/*-*/ Option<Self>/*+*/)
        requires self.wf(), rhs.wf()
        ensures
            r.is_none() <==> self.val() + rhs.val() >= pow2(BITS as nat),
            r.is_some() ==> r.unwrap().wf() && r.unwrap().val() == self.val() + rhs.val(),/*-*/
    {
        /*+*/proof { lemma_pow2_pos(BITS as nat); if self.val() + rhs.val() < pow2(BITS as nat) { lemma_small_mod(self.val() + rhs.val(), pow2(BITS as nat)); } }/*-*/
        match self.overflowing_add(rhs) {
            (value, false) => Some(value),
            _ => None,
        }
    }
//@ end

//@ extract src/add.rs fn checked_neg
    pub fn checked_neg(self) -> /*+*/(r:/*-*/ Option<Self>/*+*/)
        requires self.wf(), BITS <= usize::MAX - 63
        ensures
            r.is_none() <==> self.val() != 0,
            r.is_some() ==> r.unwrap().wf() && r.unwrap().val() == 0,/*-*/
    {
        /*+*/proof { lemma_pow2_pos(BITS as nat); lemma_small_mod(0, pow2(BITS as nat)); }/*-*/
        match self.overflowing_neg() {
            (value, false) => Some(value),
            _ => None,
        }
    }
//@ end

//@ extract src/add.rs fn checked_sub
    pub fn checked_sub(self, rhs: Self) -> /*+*/(r:/*-*/ Option<Self>/*+*/)
        requires self.wf(), rhs.wf()
        ensures
            r.is_none() <==> self.val() < rhs.val(),
            r.is_some() ==> r.unwrap().wf() && r.unwrap().val() == self.val() - rhs.val(),/*-*/
    {
        /*+*/proof { self.lemma_wf_lt(); lemma_pow2_pos(BITS as nat); if self.val() >= rhs.val() { lemma_small_mod((self.val() - rhs.val()) as nat, pow2(BITS as nat)); } }/*-*/
        match self.overflowing_sub(rhs) {
            (value, false) => Some(value),
            _ => None,
        }
    }
//@ end

//@ extract src/add.rs fn saturating_add
    pub fn saturating_add(self, rhs: Self) -> /*+*/(r:/*-*/ Self/*+*/)
        requires self.wf(), rhs.wf(), BITS <= usize::MAX - 63
        ensures r.wf(),
            self.val() + rhs.val() >= pow2(BITS as nat) ==> r.val() == pow2(BITS as nat) - 1,
            self.val() + rhs.val() < pow2(BITS as nat) ==> r.val() == self.val() + rhs.val(),/*-*/
    {
        /*+*/proof { lemma_pow2_pos(BITS as nat); if self.val() + rhs.val() < pow2(BITS as nat) { lemma_small_mod(self.val() + rhs.val(), pow2(BITS as nat)); } }/*-*/
        match self.overflowing_add(rhs) {
            (value, false) => value,
            _ => Self::MAX(),
        }
    }
//@ end

//@ extract src/add.rs fn saturating_sub
    pub fn saturating_sub(self, rhs: Self) -> /*+*/(r:/*-*/ Self/*+*/)
        requires self.wf(), rhs.wf(), BITS <= usize::MAX - 63
        ensures r.wf(),
            self.val() < rhs.val() ==> r.val() == 0,
            self.val() >= rhs.val() ==> r.val() == self.val() - rhs.val(),/*-*/
    {
        /*+*/proof { self.lemma_wf_lt(); lemma_pow2_pos(BITS as nat); if self.val() >= rhs.val() { lemma_small_mod((self.val() - rhs.val()) as nat, pow2(BITS as nat)); } }/*-*/
        match self.overflowing_sub(rhs) {
            (value, false) => value,
            _ => Self::ZERO(),
        }
    }
//@ end

//@ extract src/add.rs fn wrapping_add
    pub fn wrapping_add(self, rhs: Self) -> /*+*/(r:/*-*/ Self/*+*/)
        requires self.wf(), rhs.wf()
        ensures r.wf(), r.val() == (self.val() + rhs.val()) % pow2(BITS as nat)/*-*/
    {
        self.overflowing_add(rhs).0
    }
//@ end

//@ extract src/add.rs fn wrapping_neg
    pub fn wrapping_neg(self) -> /*+*/(r:/*-*/ Self/*+*/)
        requires self.wf(), BITS <= usize::MAX - 63
        ensures r.wf(), r.val() as int == (0 - self.val()) % (pow2(BITS as nat) as int)/*-*/
    {
        self.overflowing_neg().0
    }
//@ end

//@ extract src/add.rs fn wrapping_sub
    pub fn wrapping_sub(self, rhs: Self) -> /*+*/(r:/*-*/ Self/*+*/)
        requires self.wf(), rhs.wf()
        ensures r.wf(), r.val() as int == (self.val() - rhs.val()) % (pow2(BITS as nat) as int)/*-*/
    {
        self.overflowing_sub(rhs).0
    }
//@ end
}

} // verus!
fn main() {}
